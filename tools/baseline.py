#!/venv/bin/python
"""Run the repository's own test suite (guard OFF) in a repo dir and compare
with /root/.vp/BASELINE.json: every stable_pass test must pass.
usage: baseline.py [repo_dir]   exit 0 iff all 377 baseline tests pass."""
import json, os, subprocess, sys, tempfile
import xml.etree.ElementTree as ET
repo = sys.argv[1] if len(sys.argv) > 1 else '/repo'
base = json.load(open('/root/.vp/BASELINE.json'))
want = set(base['stable_pass'])
fd, junit = tempfile.mkstemp(suffix='.xml'); os.close(fd)
env = dict(os.environ); env.pop('ENGINEIO_VERIF', None)
env['PYTHONPATH'] = os.path.join(repo, 'src')
env['PYTHONDONTWRITEBYTECODE'] = '1'
subprocess.run(['/venv/bin/python', '-m', 'pytest', '-q', '-p', 'no:cacheprovider',
                '--timeout=900', '--continue-on-collection-errors', '--junitxml=' + junit],
               cwd=repo, env=env, stdout=subprocess.DEVNULL, stderr=subprocess.DEVNULL)
passed = set()
for tc in ET.parse(junit).getroot().iter('testcase'):
    if not any(c.tag in ('failure', 'error', 'skipped') for c in tc):
        passed.add('%s::%s' % (tc.get('classname'), tc.get('name')))
os.unlink(junit)
missing = sorted(want - passed)
print('baseline: %d/%d stable tests pass; %d others pass' % (len(want & passed), len(want), len(passed - want)))
for m in missing[:20]:
    print('  NOT PASSING:', m)
sys.exit(1 if missing else 0)
