#!/usr/bin/env python3
"""Regenerate MANIFEST.json from tools/manifest_src.py (kept as data)."""
import json, os, sys
here = os.path.dirname(os.path.dirname(os.path.abspath(__file__)))
sys.path.insert(0, os.path.join(here, 'tools'))
import manifest_src as m
checks = []
for pid, c in sorted(m.CHECKS.items()):
    checks.append({
        'property_id': pid,
        'quick_cmd': './check %s --tier quick' % pid,
        'thorough_cmd': './check %s --tier thorough' % pid,
        'evidence_file': 'evidence/%s.json' % pid,
        'replay_cmd_template': './check %s --replay {path}' % pid,
        'engine': c.get('engine', 'vf'),
        'level_claimed': {'category': c['category'], 'text': c['text'], 'design_ref': c['design_ref']},
        'level_note': c['note'],
        'technique': c['technique'],
    })
doc = {
    'version': 1,
    'setup_cmd': m.SETUP,
    'hooks': m.HOOKS,
    'engines': m.ENGINES,
    'checks': checks,
    'notes': m.NOTES,
    'not_applicable': [{'property_id': k, 'reason': v} for k, v in sorted(m.NOT_APPLICABLE.items())],
}
json.dump(doc, open(os.path.join(here, 'MANIFEST.json'), 'w'), indent=1)
print('wrote MANIFEST.json with %d checks, %d not_applicable' % (len(checks), len(doc['not_applicable'])))
