#!/bin/sh
# usage: tools/run_all.sh [quick|thorough] [seed]   -- run every registered check, print one line each
TIER=${1:-quick}; SEED=${2:-0}
cd /verif
for i in 01 02 03 04 05 06 07 08 09 10 11 12 13 14 15 16 17 18 19 20; do
  VERIF_SEED=$SEED ./check C$i --tier $TIER > /tmp/vf_run_C$i.log 2>&1; rc=$?
  echo "C$i rc=$rc $(grep -c '^KNOWN-FINDING' /tmp/vf_run_C$i.log) known; $(tail -1 /tmp/vf_run_C$i.log | cut -c1-110)"
done
