#!/venv/bin/python
"""Re-run, for every kept seed, the checks recorded in its meta.json (quick tier) against a scratch worktree
with the seed applied. Does not touch /repo's working tree. usage: regress_seeds.py [seed-id ...]"""
import json, os, subprocess, sys, tempfile
seeds = sys.argv[1:] or sorted(os.listdir('/verif/seeded'))
top = tempfile.mkdtemp(prefix='vf-seeds-')
wt = os.path.join(top, 'wt')
subprocess.check_call(['git', '-C', '/repo', 'worktree', 'add', '-q', '--detach', wt, 'HEAD'])
bad = []
try:
    for sid in seeds:
        d = os.path.join('/verif/seeded', sid)
        meta = json.load(open(os.path.join(d, 'meta.json')))
        r = subprocess.run(['git', '-C', wt, 'apply', os.path.join(d, 'patch.diff')], capture_output=True, text=True)
        if r.returncode != 0:
            print(sid, 'PATCH DOES NOT APPLY', r.stderr[:100]); bad.append(sid); continue
        res = []
        if not [c for c in meta['caught_by'] if c]:
            print(sid, 'RECORDED AS NOT CAUGHT:', meta.get('not_caught_reason', '')[:100], flush=True)
            subprocess.check_call(['git', '-C', wt, 'checkout', '-q', '--', '.'])
            continue
        for chk in [c for c in meta['caught_by'] if c][:1]:
            env = dict(os.environ, VERIF_REPO=wt, VERIF_SHOW='1')
            p = subprocess.run(['/verif/check', chk, '--no-evidence'], capture_output=True, text=True, env=env)
            res.append('%s rc=%d' % (chk, p.returncode))
            if p.returncode != 1:
                bad.append(sid)
        print(sid, ' '.join(res), flush=True)
        subprocess.check_call(['git', '-C', wt, 'checkout', '-q', '--', '.'])
finally:
    subprocess.call(['git', '-C', '/repo', 'worktree', 'remove', '--force', wt])
    subprocess.call(['rm', '-rf', top])
print('NOT CAUGHT:', bad if bad else 'none')
sys.exit(1 if bad else 0)
