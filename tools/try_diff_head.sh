#!/bin/sh
# usage: tools/try_diff_head.sh <patch.diff> <ID...>  -- apply a patch to a scratch worktree of /repo's HEAD and run quick checks there
P=$1; shift
D=$(mktemp -d /tmp/vf-try-XXXXXX)
git -C /repo worktree add -q --detach "$D/wt" HEAD || exit 2
git -C "$D/wt" apply "$P" || { echo "patch does not apply"; git -C /repo worktree remove --force "$D/wt"; rm -rf "$D"; exit 2; }
/verif/tools/try_wt.sh "$D/wt" "$@"
git -C /repo worktree remove --force "$D/wt"; rm -rf "$D"
