#!/bin/sh
# usage: tools/try_patch.sh <patch.diff> <ID> [<ID> ...]   -- apply a seeded change to /repo, run the quick checks, undo it
P=$1; shift
git -C /repo apply "$P" || { echo "patch does not apply"; exit 2; }
cd /verif
for id in "$@"; do
  VERIF_SHOW=3 ./check $id --no-evidence > /tmp/vf_try_$id.log 2>&1; rc=$?
  echo "$id rc=$rc :: $(grep -m2 'what:' /tmp/vf_try_$id.log | cut -c1-260 | tr '\n' '|') $(tail -1 /tmp/vf_try_$id.log | cut -c1-60)"
done
git -C /repo checkout -- .
