#!/bin/sh
# usage: tools/validate_seed.sh <worktree>  -- confirm a sub-agent's seeded change: baseline passes with it, demo fails with it and passes without
# (no `git stash`: the stash is shared by all worktrees of a repository, so concurrent users would swap changes)
WT=$1
cd $WT || exit 2
P=$(mktemp /tmp/vf_seed.XXXXXX.diff)
git diff > $P; cp $P /tmp/vf_seed.diff
echo "--- diff stat"; git diff --stat | tail -3
echo "--- baseline with change"; /venv/bin/python /verif/tools/baseline.py $WT | tail -2
echo "--- demo with change"; PYTHONPATH=$WT/src timeout 300 /venv/bin/python demo_test.py > /tmp/vf_demo_with.log 2>&1; echo "rc=$? $(tail -2 /tmp/vf_demo_with.log | cut -c1-200)"
git apply -R $P || { echo "cannot reverse patch"; exit 2; }
echo "--- demo without change"; PYTHONPATH=$WT/src timeout 300 /venv/bin/python demo_test.py > /tmp/vf_demo_without.log 2>&1; echo "rc=$? $(tail -1 /tmp/vf_demo_without.log | cut -c1-200)"
git apply $P || { echo "cannot re-apply patch"; exit 2; }
rm -f $P
