#!/bin/sh
# usage: tools/try_wt.sh <worktree-with-change> <ID> [<ID> ...]  -- run quick checks against a scratch worktree (does not touch /repo)
WT=$1; shift
cd /verif
for id in "$@"; do
  VERIF_REPO=$WT VERIF_SHOW=3 ./check $id --no-evidence > /tmp/vf_trywt_$id.log 2>&1; rc=$?
  echo "$id rc=$rc :: $(grep -m2 'what:' /tmp/vf_trywt_$id.log | cut -c1-260 | tr '\n' '|') $(tail -1 /tmp/vf_trywt_$id.log | cut -c1-60)"
done
