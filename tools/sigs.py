#!/venv/bin/python
"""usage: tools/sigs.py <ID> [tier]  -- run a check in-process and print the distribution of violation signatures
(before known-finding matching). Development aid."""
import collections, importlib, json, os, sys
sys.path.insert(0, '/verif')
os.environ.setdefault('ENGINEIO_VERIF', '1')
from vf import run as vrun, report
pid = sys.argv[1].upper()
tier = sys.argv[2] if len(sys.argv) > 2 else 'quick'
ctx = report.Ctx(pid=pid, tier=tier, seed=int(os.environ.get('VERIF_SEED', '0')), repo=vrun.REPO, workers=16, here=vrun.HERE)
vrun._assert_repo()
mod = importlib.import_module('vf.checks.' + vrun.CHECKS[pid])
rep = mod.run(ctx)
c = collections.Counter(json.dumps(v.sig, sort_keys=True) for v in rep.violations)
for k, n in c.most_common():
    print(n, k)
