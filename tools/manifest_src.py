SETUP = "/venv/bin/python -B -m compileall -q vf >/dev/null; ./check-selftest"
HOOKS = {
    "guard": "ENGINEIO_VERIF",
    "enable": "no source hooks: the checks import engineio from /repo/src of the current working tree and rebind documented seams (Server._async, module-global time, secrets.token_bytes, http_session=) at run time; ./check exports ENGINEIO_VERIF=1 for uniformity only",
    "baseline_off_cmd": "/verif/tools/baseline.py /repo",
    "source_commits": [],
    "add_only": True,
}
ENGINES = [
    {"name": "vf", "path": "vf/", "serves_properties": [],
     "kind_free_text": "hand-written explicit-state / stateless explorer for Python: virtual clock, hand-stepped asyncio loop, baton-scheduled OS threads, in-memory WSGI/ASGI gateways; bounded-exhaustive enumeration drivers with reference models"},
]
NOTES = "All checks run the real engineio code from /repo/src. See DESIGN.md. Known findings: known_findings.json."
_PENDING = "check not built yet in this revision of /verif (model checking does apply; see DESIGN.md section 5)"
NOT_APPLICABLE = {}
CHECKS = {}

def _c(pid, category, technique, text, note, ref):
    CHECKS[pid] = dict(category=category, technique=technique, text=text, note=note, design_ref=ref)

_c('C01', 'exploration',
   'bounded-exhaustive input enumeration + exhaustive call-history search against a reference codec',
   'Every (type, payload) over an adversarial alphabet up to a length bound, all short byte strings, JSON values and look-alikes, on both channel kinds, and every sequence of encode calls up to a length on one packet object, is run through the real Packet and compared with an independent reference encoder/decoder. Complete within the stated bounds; says nothing about payload characters outside the alphabet.',
   'Python json/base64 modules are trusted as the definition of JSON and base64; payload kinds outside the documented API are not enumerated.',
   'DESIGN.md 5 C01')

ALL = ['C%02d' % i for i in range(1, 21)]
for p in ALL:
    if p not in CHECKS:
        NOT_APPLICABLE[p] = _PENDING
for e in ENGINES:
    e['serves_properties'] = sorted(CHECKS)

_c('C02', 'exploration',
   'bounded-exhaustive input enumeration against reference framing and a compositional all-or-nothing decoder oracle',
   'Every packet list up to a length over representative packets (plus every length 0..18 and uniform lists to 100) is encoded by the real Payload and compared with the reference framing, decoded back plain and as d= form bodies; every string up to a length bound over a 14-symbol adversarial alphabet is decoded and must equal the list of per-segment decodings or fail as a whole; 16 accepted, 17 refused. Complete within the bounds.',
   'Compositionality is judged against the real single-packet decoder, which C01 checks; longer random strings of the property text are not sampled (no sampling in this family).',
   'DESIGN.md 5 C02')
_c('C17', 'exploration',
   'exhaustive enumeration of id windows under adversarial random sources',
   'Windows of consecutively issued ids (2^18 quick, 2^24 thorough, across the counter wrap and from several start counters) are drawn from the real generate_id() with the OS random source replaced by constant, periodic and counter-cancelling stand-ins; shape, pairwise distinctness, >= 12 bytes requested per issue and verbatim embedding of those bytes are checked on every id.',
   'The OS source is assumed to be a CSPRNG; start counters other than 0 are installed by assigning sequence_number.',
   'DESIGN.md 5 C17')
_c('C20', 'exploration',
   'bounded-exhaustive path x mapping x endpoint enumeration on a real scratch tree against a routing reference; exhaustive lifespan event sequences',
   'Every path of up to 4 (thorough 5) segments over an 11-symbol segment alphabet, with and without trailing slash, x 8 static mappings x 3 endpoints x wrapped app on/off is sent through the real WSGIApp and ASGIApp; who answered, which file (identified by unique content) and which content type are compared with the reference; all lifespan sequences of length <= 3 x 25 callback combinations.',
   'For unclean paths only containment/fallback/no-exception are required; symlinks are not exercised; the Engine.IO server is a stub here (routing only).',
   'DESIGN.md 5 C20')
for p in list(NOT_APPLICABLE):
    if p in CHECKS:
        del NOT_APPLICABLE[p]
for e in ENGINES:
    e['serves_properties'] = sorted(CHECKS)

_c('C11', 'exploration',
   'exhaustive configuration-cell enumeration on the real servers in a virtual world, with a dynamic upgrade probe',
   'Every cell of the timing, upgrade, cookie and connect-outcome grids (full product on a reduced grid at the thorough tier) is opened on the real Server (WSGI) and AsyncServer (ASGI), over polling and WebSocket, and the OPEN packet, Set-Cookie header, 401 answers and the inertness of rejected ids are compared with the reference; an advertised upgrade is actually performed.',
   'Gateways and the WebSocket driver of the threaded server are contract-level fakes; cookie clause judged on polling opens only.',
   'DESIGN.md 5 C11')
for p in list(NOT_APPLICABLE):
    if p in CHECKS:
        del NOT_APPLICABLE[p]
for e in ENGINES:
    e['serves_properties'] = sorted(CHECKS)

_c('C12', 'exploration',
   'exhaustive request cross-product against prepared world states with a no-effect state-digest oracle',
   'The product method x EIO x transport x sid kind x Upgrade/Connection headers x JSONP index x configured transports is issued on both real servers against a world replayed into a state holding one session of every kind plus a bystander with queued packets; the admission reference decides admit/400/405 and for refusals the digest of all live sessions, the event log and the live-id set must be unchanged.',
   'Sessions are prepared at one virtual instant; the no-effect digest walks the socket objects generically; ASGI upgrade requests arrive as websocket scopes.',
   'DESIGN.md 5 C12')
_c('C13', 'exploration',
   'exhaustive origin-policy cross-product on both servers with a no-effect state-digest oracle',
   'All cors_allowed_origins forms x credentials x 13 Origin values (prefix, suffix, port, case, null, forwarded...) x Host / X-Forwarded-* combinations x six request kinds are issued on both real servers; disallowed origins must get 400 with the session state, queues and handler log unchanged, CORS response headers must never over-grant.',
   'Scheme is http in every world; case variants and the empty Origin carry no status verdict.',
   'DESIGN.md 5 C13')
_c('C19', 'exploration',
   'bounded-exhaustive payload x JSONP and Accept-Encoding x threshold enumeration with an ECMAScript string-literal evaluator as oracle',
   'Every message string up to a length bound over a 14-symbol alphabet (quotes, backslash, line terminators, U+2028/9, NUL, non-BMP) x JSONP indices, and bodies of exactly L bytes x thresholds around L x 14 Accept-Encoding shapes x compression on/off, are polled from both real servers; the body is decompressed as declared and, for JSONP, evaluated as one ___eio[n]("...") statement and compared with the packets queued.',
   'One-directional compression oracle; ES2019 string-literal rules.',
   'DESIGN.md 5 C19')
for p in list(NOT_APPLICABLE):
    if p in CHECKS:
        del NOT_APPLICABLE[p]
for e in ENGINES:
    e['serves_properties'] = sorted(CHECKS)

_c('C14', 'exploration',
   'exhaustive length-window enumeration with short histories on both servers in a virtual world',
   'For every limit in {1,2,5,10,100,1e6}: bodies of length {0,1,L-2..L+2,10L} x declared length {actual,actual+-1,L,L+1,0} x text/base64 x ASGI chunking, 0..18 packets per body, and frames around L at four WebSocket stages with/without a pending poll are sent to the real servers; reads from the gateway, data reaching handlers, status, and the fate of the session (after 8 s of virtual time and liveness probes) are checked.',
   'ASCII boundary payloads; the WSGI input and the threaded WebSocket driver are contract-level fakes.',
   'DESIGN.md 5 C14')
for p in list(NOT_APPLICABLE):
    if p in CHECKS:
        del NOT_APPLICABLE[p]
for e in ENGINES:
    e['serves_properties'] = sorted(CHECKS)

_c('C04', 'model_checking',
   'exhaustive history enumeration (all packet sequences up to a depth) executed on the real servers in a virtual world, against a dispatcher reference',
   'Every POST body of up to 2 packets (thorough 3; quick adds a complete seed-chosen depth-3 slice) over a 13-symbol packet alphabet covering all ten type digits, text/JSON/base64 payloads and a malformed packet, and every sequence of up to 2 (3) WebSocket frames over that alphabet plus raw binary, empty and invalid-base64 frames, is executed on polling, WebSocket-only and upgraded sessions of both servers in both handler dispatch modes; message events, status, session fate, NOOP answers and the re-armed PING instant are compared with the reference dispatcher.',
   'Default schedule only; each history is one execution of the real code (no separate model), so traces_validated equals histories.',
   'DESIGN.md 5 C04')
for p in list(NOT_APPLICABLE):
    if p in CHECKS:
        del NOT_APPLICABLE[p]
for e in ENGINES:
    e['serves_properties'] = sorted(CHECKS)

_c('C06', 'model_checking',
   'exhaustive history search over handshake event sequences plus deviation-bounded stateless schedule search, on the real servers',
   'Every sequence of up to 2 events (thorough 3; quick adds two complete depth-3 slices) over 15 handshake events (correct, wrong type/payload, oversize, empty, binary, garbage, peer close) x 0-2 queued messages x pending poll, each followed by a recovery suffix (late poll must return everything queued, second handshake must succeed, repeated upgrade must be refused without disturbing the socket), is executed on both real servers and compared with the handshake reference automaton and a delivery ledger; every 1- and 2-event handshake is additionally raced against a concurrent poll and send under all interleavings with up to 1 (thorough 2) deviations; transport configuration cells.',
   'Zero-time computation; contract-level fake of the threaded WebSocket driver; the real asgi.WebSocket is used on the asyncio side.',
   'DESIGN.md 5 C06')
for p in list(NOT_APPLICABLE):
    if p in CHECKS:
        del NOT_APPLICABLE[p]
for e in ENGINES:
    e['serves_properties'] = sorted(CHECKS)

_c('C15', 'model_checking',
   'explicit-state breadth-first search over session histories with digest de-duplication; probe menu and liveness horizon in every state, on the real servers',
   'Breadth-first search over an 11-action alphabet (open, pending poll, posts, upgrade steps, send, tick, vanish) to depth 4 (thorough 6) with canonical-digest de-duplication; in every distinct state 33 HTTP probes (reduced admission product, malformed bodies: bad digit, bad base64, bad UTF-8, deep JSON, 17/1000 segments, oversize, form bodies) and 6 application calls are issued on a fresh replay, the world is run 8 s of virtual time further, and the WSGI/ASGI validators, the status set {200,400,401,405}, escaping exceptions and completion of every request and call are checked.',
   'Default schedule; the digest abstracts sessions, queues, pending requests, events and next timer; upgrade requests exempt from completion.',
   'DESIGN.md 5 C15')
for p in list(NOT_APPLICABLE):
    if p in CHECKS:
        del NOT_APPLICABLE[p]
for e in ENGINES:
    e['serves_properties'] = sorted(CHECKS)

_c('C16', 'model_checking',
   'exhaustive history search over session life-cycle actions with API probes, sweep and silence epilogues, on the real servers',
   'Every enabled history of up to 4 (thorough 5) actions over 13 actions (accepted / rejected / WebSocket opens, ends by CLOSE, protocol error, disconnect(), socket close, vanishing clients incl. mid-upgrade, polls, saves, ticks) with up to three sessions is executed on both servers with client monitoring on; afterwards send/get_session/save_session/session()/transport() are probed with never-issued, rejected and disconnected ids (KeyError, no effect on others), user data isolation is checked, after two monitor sweeps the table must equal the reference live set, and after silence past the heartbeat bound it must be empty with one disconnect per session.',
   'Default schedule; ping_interval=10/ping_timeout=1; target of an action is the first live session.',
   'DESIGN.md 5 C16')
for p in list(NOT_APPLICABLE):
    if p in CHECKS:
        del NOT_APPLICABLE[p]
for e in ENGINES:
    e['serves_properties'] = sorted(CHECKS)

_c('C03', 'model_checking',
   'stateless deviation-bounded schedule search (iterative context bounding + early environment injection) on the real servers in a virtual world, with a delivery-ledger oracle',
   'Eight scenarios (successful upgrade with/without a pending poll, handshake failing by a wrong frame or a close, overlapping polls, WebSocket-only, two sessions, client CLOSE during sends) x 2-3 tagged messages (text, JSON, binary) x both servers: the client script and the application send script run as parallel scripts; every interleaving of the scripts at quiescence plus every schedule with up to 1 (thorough 2) deviations is executed on the real code from a fresh world, followed by a drain epilogue; the ledger checks at-most-once over all transports, order between happens-before-ordered sends, NOOP-only polls after the upgrade began, completeness and no cross-session delivery.',
   'Zero-time computation; threaded schedules at synchronisation-operation granularity; asyncio FIFO never permuted; contract-level fake of the threaded WebSocket driver.',
   'DESIGN.md 5 C03')
for p in list(NOT_APPLICABLE):
    if p in CHECKS:
        del NOT_APPLICABLE[p]
for e in ENGINES:
    e['serves_properties'] = sorted(CHECKS)

_c('C05', 'model_checking',
   'stateless deviation-bounded schedule search over racing end causes on the real servers, with a per-session event automaton as monitor',
   'For polling, upgraded and WebSocket-only sessions with a bystander: every single end cause and every ordered pair (thorough: some triples) among client CLOSE by POST or frame, disconnect(sid), disconnect(), protocol error, oversize POST, peer closing the socket, send after the heartbeat deadline and silence runs as parallel scripts under every interleaving and up to 1 (thorough 2) deviations, for five disconnect-handler behaviours (record, raise, yield, re-enter disconnect, re-enter send) and a raising message handler; afterwards late traffic (poll, POST MESSAGE, frame, another disconnect, send) and ~9 s of virtual time. The monitor requires connect first and once, exactly one disconnect whose reason belongs to a cause delivered before the event fired, nothing after it, cleanup despite handler exceptions, bystander unaffected.',
   'Zero-time computation; threaded schedules at synchronisation-operation granularity (the check-then-set window inside Socket.close is below that granularity); livelock = no quiescence within the step cap.',
   'DESIGN.md 5 C05')
for p in list(NOT_APPLICABLE):
    if p in CHECKS:
        del NOT_APPLICABLE[p]
for e in ENGINES:
    e['serves_properties'] = sorted(CHECKS)

_c('C07', 'model_checking',
   'timed stateless schedule search with a virtual clock and a reactive client automaton, on the real servers',
   'Grid of (interval, timeout, grace) settings incl. fractional and equal values x polling / upgraded (thorough: WebSocket-only) x PONG-delay sequences over {0, timeout-1/8, timeout, timeout+1/8} ending in silence x mute/vanishing peer x monitoring on/off x an application send placed on the 1/8 s lattice x both servers; every same-instant ordering of environment actions and schedules with up to one deviation (environment action ahead of a same-instant library timer, preemption). Checked: PING instants = open+interval and PONG+interval exactly; a punctual peer is never dropped before the deadline of the first PING it leaves unanswered; a silent peer gets exactly one timeout-class disconnect within last PONG + interval + 3 x timeout with monitoring on, by the poll timeout when it keeps polling with monitoring off, and at the first send after the deadline; no poll is held longer than interval + timeout.',
   'Timed-automaton idealisation (zero-time computation, lattice instants); at and beyond the exact timeout boundary only safety clauses are judged.',
   'DESIGN.md 5 C07')
for p in list(NOT_APPLICABLE):
    if p in CHECKS:
        del NOT_APPLICABLE[p]
for e in ENGINES:
    e['serves_properties'] = sorted(CHECKS)

_c('C18', 'model_checking',
   'lock-step differential explicit-state search (BFS with de-duplication on digest pairs) of the two real server implementations under a shared virtual clock',
   'Breadth-first search over 25 actions (opens incl. rejected and WebSocket, polls, POST bodies incl. CLOSE / invalid types / garbage / 17 packets, all upgrade steps incl. a failing frame, steady-state frames, peer close, application send and disconnect, clock ticks, refused requests) to depth 4 (thorough 5); every history is applied in lock step to Server and AsyncServer and after each history the per-session event logs (kind, payload, order, reason), delivered messages per transport, admission statuses, liveness and transport are compared; de-duplication on the pair of canonical state digests.',
   'Default schedules; heartbeat settings large enough that silence-caused ends stay outside the bounded histories (C07 bounds them per server); timeout-class reasons compared as one class; enabledness of actions is decided client-side only.',
   'DESIGN.md 5 C18')
for p in list(NOT_APPLICABLE):
    if p in CHECKS:
        del NOT_APPLICABLE[p]
for e in ENGINES:
    e['serves_properties'] = sorted(CHECKS)

_c('C08', 'model_checking',
   'history search over scripted server behaviours plus deviation-bounded schedule search, on the real Client (virtual threads) and AsyncClient (virtual loop)',
   'Every connect answer from a 12-entry menu, every poll-answer sequence up to length 2 (thorough 3) over 9 answers (messages, PING, NOOP, CLOSE, unknown type, garbage, 4xx, connection error, silence), POST answers, WebSocket connect / first-frame behaviours and five probe behaviours, combined with application scripts (send, disconnect, both, twice) and handler-initiated disconnects as a parallel script, under all interleavings and up to 1 (thorough 2) deviations; each execution ends with wait(), no-op send()/disconnect() and a second connect() on the same object. The monitor checks ConnectionError-or-established, one connect event with the adopted sid/transport/timing, exactly one disconnect with the reason of a cause that occurred before it, nothing after it, clean state, finished tasks, de-registration and reusability.',
   'requests / websocket-client / aiohttp are contract-level fakes; client-side timeouts fire in virtual time.',
   'DESIGN.md 5 C08')
for p in list(NOT_APPLICABLE):
    if p in CHECKS:
        del NOT_APPLICABLE[p]
for e in ENGINES:
    e['serves_properties'] = sorted(CHECKS)

_c('C09', 'model_checking',
   'schedule / history search on the real clients against a scripted server, plus exhaustive URL product against a reference builder',
   'Server push sequences (message bursts of text/JSON/binary, PINGs with arbitrary data, NOOP, unknown type) and application sends (text, bytes, JSON) run as parallel scripts on polling, WebSocket and across the upgrade (probe answered correctly, wrongly, not at all, socket refused) for Client and AsyncClient: all interleavings for every scenario and up to 1 (thorough 2) deviations for the single-push and upgrade scenarios; every execution ends in server silence. Checked: one PONG with identical data per PING, messages dispatched once in arrival order with decoded payloads, sends received once in order with binary frames on WebSocket and base64 in POST bodies, upgrade only through 2probe/3probe/5 and otherwise everything still POSTed, transport error within pingInterval+pingTimeout(+5 s) of the silence. 648 URLs per client against the reference URL builder.',
   'Contract-level fakes of requests / websocket-client / aiohttp; handler order judged at dispatch.',
   'DESIGN.md 5 C09')
for p in list(NOT_APPLICABLE):
    if p in CHECKS:
        del NOT_APPLICABLE[p]
for e in ENGINES:
    e['serves_properties'] = sorted(CHECKS)

_c('C10', 'model_checking',
   'schedule search on a real client connected to a real server inside one virtual world (shared clock, baton threads and hand-stepped loop as actors of one scheduler)',
   'All 2x2 implementation pairs x transports {[polling],[websocket],both} x heartbeat {(1,1),(2,1)}: one-directional bursts of 1, 2, 16, 17 and 40 sends issued back to back (text/JSON/binary), simultaneous 17+17 bursts, a 3+3 exchange under all interleavings of the two applications, an idle period of 6 heartbeat cycles with a lasso check on the state digest, and disconnect by either side right after an exchange or after idle cycles; small conversations additionally with one deviation (thorough: two, all pairs). Both message logs must equal what was sent (exactly once, in order, equal values), no disconnect while idle, exactly one disconnect on each side after either side hangs up.',
   'The network between the two real implementations is virtual (zero-time, ordered, lossless hand-over to the WSGI/ASGI gateways); only sends that reached quiescence before the hang-up are owed.',
   'DESIGN.md 5 C10')
for p in list(NOT_APPLICABLE):
    if p in CHECKS:
        del NOT_APPLICABLE[p]
for e in ENGINES:
    e['serves_properties'] = sorted(CHECKS)

# ---- additions made while the checks were strengthened against seeded changes (DESIGN.md 10.6)
_ADD = {
 'C01': 'The JSON look-alikes and values are decoded / encoded again with Packet.json set to the standard library module and to an application class (the json= option). An aliasing clause: decode, change the result in place, decode the same text again; two packets built from an object changed in between.',
 'C02': 'Lists holding binary packets are also built from packet objects already encoded for other channels (6 encode histories); bodies around the limit for 9 other configured values of Payload.max_decode_packets; payloads built / decoded right after an encode() or decode() that failed. One Payload object decoded twice (every first string, also failing ones, x every second list): the second result is that of the second string alone. A binary packet for each of the 256 leading bytes, alone and between two other packets. Attachments of 3071..65537 bytes. Payloads with backslashes and escaped / real newlines.',
 'C03': 'Variants include backlogs of 17..40 messages (also with a heartbeat PING in the middle, and while the session is closing), two overlapping opens with a slow connect handler, an upgrade request whose socket is gone before the WebSocket accept, and a server write that fails in the middle of a batch; a binary message written to a WebSocket as a base64 text frame is a violation. Two long-polls of one session waiting when a burst is queued (Queue.empty() / qsize() are scheduling points of the virtual queue). A batch whose first WebSocket write is parked while one more message is sent (back-pressure variants).',
 'C04': 'Also: message handlers that raise (ordinary exception, TypeError) or disconnect their own session in the middle of a body, bodies arriving while the session is in the middle of its own close, empty binary frames. Bodies preceded by an ordinary body of the same session. Two-packet bodies delivered by the ASGI gateway as piece, empty piece, piece.',
 'C05': 'Disconnect handlers also touch other sessions (kick a partner, send to a stale id), raise from a legacy one-argument handler, or follow a first open rejected by a TypeError; a write that fails is an end cause of its own (reason of the transport class); earlier server generations (a session that came and went, disconnect() on an empty table) precede the observed session; a disconnect() call that raises, or returns without having ended every session, is a violation. Line-granular preemption (sys.settrace) inside Socket.close for racing closers. The gateway cancelling a pending long-poll is an end cause of the transport class (asyncio); asyncio disconnect() of everybody while the first session has no poll waiting ends the bystander at once. End causes arriving while the session is between probe and UPGRADE of an upgrade handshake. On the asyncio server the gateway also cancels the POST that carried the CLOSE packet while the coroutine disconnect handler is suspended: later requests for the session must be refused.',
 'C06': 'Histories also start after / consist of an upgrade attempt that died before the WebSocket accept or failed right after its probe; two upgrade sockets opened on one session before either handshake finished (every interleaving); on a polling-only server every shape of the upgrade request is followed by the full handshake; a directly opened WebSocket is raced against a poll issued on receipt of its OPEN packet with line-granular scheduling (2 deviations). A second session upgrades / opens over WebSocket while a write to a first, upgraded session is parked inside its socket (back-pressure). Pre-histories in which the earlier attempt ended by the peer hanging up after its probe. On a server that allows the upgrade the full handshake must complete with Connection: keep-alive, Upgrade / Upgrade, keep-alive and Upgrade: WebSocket.',
 'C07': 'Also: upgrades straddling the first PING, peers that talk but never PONG, peers stalled for ever between probe and UPGRADE, WebSocket opens whose accept failed, crowds of 3 / 5 silent sessions, sessions that are a later generation of the server (after a closed session, a rejected open, a disconnect() of everybody); a deep subset with free switching, two preemptions and line-granular scheduling inside _send_ping. A PONG that reaches the server twice (half an interval apart) restarts an interval of its own; the peer that answers every PING it is sent stays live. The quick grid has a cell with a grace period.',
 'C08': 'Early-reconnect scenarios (connect() again 3 s after the disconnect event; the second connection must last until its own read timeout and take nothing over from the first OPEN packet); write-fault scenarios (the k-th write of a batch fails once); a thread blocked on a real lock is reported as a deadlock. Paced servers (3..5 PINGs spaced ping_interval + 3/8 s apart, then CLOSE): the client must hear the server out. OPEN packets announcing 1500 / 500 ms. A legacy no-argument disconnect handler behind a pass-through decorator. The threaded client with a timeout of its own in websocket_extra_options. Connect answers that end the session in the response that opens it (OPEN + CLOSE, OPEN + MESSAGE + CLOSE), also with a suspending and a legacy disconnect handler.',
 'C09': 'Also: writes that block inside the socket while frames keep arriving; the k-th write of a flush failing once (the wire must be a prefix of what was sent); sends made from inside the connect handler; connect() called again on a connected client. Caller query strings with blank values, value-less flags, repeated keys and latin-1 / reserved escapes are compared decoded byte for byte. Steady heartbeats of 3..6 cycles, each 3/8 s longer than ping_interval. Upgrade connections failing with OSError(no route) and TimeoutError (threaded client). An empty binary MESSAGE among the pushes. The caller order of transports decides the first contact. PING data that decode to numbers; PING and PONG data compared as decoded values.',
 'C10': 'The same conversations also run over a virtual network with a one-way delay (1/16..7/16 s; delay line in the combined world) with heartbeat settings that put PINGs inside the handshake and the upgrade; one message of each of 13 payload shapes in each direction; bursts followed by a hang-up; a server write failing in the middle of a burst; greetings sent from the connect handler; differently configured servers constructed earlier in the process. A conversation in which the application calls connect() again on the connected client. The payload zoo includes a list of 200 numbers, a dict of 150 keys and a 300-character text. Conversations with a 6 s heartbeat idling two cycles. A payload with infinite floats in the zoo.',
 'C11': 'A schedule search over two / three simultaneous opens with per-client handler duration and verdict; after each accepted open an open over the other transport; a cookie attribute callable that depends on the request and one that returns False; connect handlers raising TypeError; at the moment a 401 is handed to the gateway the rejected id must already be gone (observer inside the gateway callback). Histories of 1..3 rejections on one server (compressible / small / False values x Accept-Encoding none / gzip / deflate): every 401 decodes by its own headers to the value of its own handler call. Cookie kind x cors_credentials x origin policy {default, *, disabled} x outcome. The leading 2 / 3 / 4 / 7 options given by position in the documented order. An open after two sessions ended (ordinary / legacy / raising disconnect handlers). Connect outcomes 1 and 1.0. Connect outcomes that cannot be serialised and a 150-character refusal; the close reason of refused asyncio WebSocket opens is compared.',
 'C12': 'Also: allow_upgrades=False; session kinds "closing" (disconnect handler never returns), "suffixed" / "prefix" (a live sid plus / minus one character); header kind Upgrade: h2c at the quick tier; POSTs to a closing session must not produce events. Header kind with the upgrade headers in another letter case. The transports option given as a bare string; transport names that are proper substrings of the real ones. Refused requests naming a session whose PING is overdue and unnoticed. A query with the EIO parameter given twice (EIO=4&EIO=3).',
 'C13': 'Request pairs on one server (forwarded headers or an allowed / case-variant / foreign Origin first) judged on the second request alone and differentially against a fresh server; a state with two sessions opened and used through two hosts in which every (session, host, origin, kind) request is judged on its own; a pending poll overlapped by a POST of the same session with another allowed Origin. Origins mixing the gateway scheme with the forwarded host and the forwarded scheme with the gateway host. A callable policy that raises for some origins: those requests are not admitted, get no grant and have no effect.',
 'C14': 'Also: POSTs around the limit while the session is closing, in both orders; oversize frames whose close frame cannot be written (the session must be dead a quarter second later); form bodies; limits of 1..5 bytes. On the threaded server also with an input stream whose first read returns half of what was asked: the bytes taken from the stream stay within min(declared, limit). The limit given as the third positional constructor option. Bodies of two-byte characters.',
 'C15': 'The alphabet includes a full batch of 16 sends; a second search root is the state after a completed upgrade; compressed response paths (8-byte threshold); an overlap pass (every probe while the disconnect handler of an ending session is asleep) and a farewell pass (a disconnect handler that yields and then sends); blocked-call signatures carry the queue-reader state so that known findings name exactly the (server, reader) pairs that block on the pinned tree. Accept-Encoding tokens in other letter cases, with parameters and after unknown codings. A failing-application pass: every probe on worlds whose message handler raises and whose disconnect handler raises TypeError or is a legacy one-argument handler that raises. A relay pass: an application that sends back what it receives, after a client posted text that decodes to a lone surrogate (known finding). A flood pass (1100 sends to a session in four states must return); probes without Host but with X-Forwarded headers; the relay pass also uses a JSON object holding a lone surrogate. Accept-Encoding headers with malformed quality values on an open and on a poll.',
 'C16': 'A schedule search (free switching, <= 2 preemptions, scheduling points between creating, entering and leaving the session() context) over concurrent session() / save_session() / get_session(); WebSocket opens whose accept fails; histories after which the oldest session keeps a healthy client while the others fall silent; sessions coming and going in the middle of a monitor sweep. A lagging healthy client (ping_interval 1 s, ping_timeout 3 s, every PONG 1.5 s late over eight cycles) must survive while the others are reaped. Binary sends in the second pass.',
 'C17': 'Also: a successor test at every power-of-two boundary of the counter; sibling instances (A issues an id, another instance issues 2^24-1, the next id of A must differ); handshakes presenting the cookie of an ended session or a forged one; accepted and rejected handshakes interleaved under a constant source. Handshake patterns with a shutdown() of the server in the middle.',
 'C18': 'The alphabet includes an upgrade attempt dropped before the accept and a server write that fails; sessions that either server has dropped for a timeout-class reason leave the comparison; histories in which two suspended handlers wake at the same instant are pruned from the sleepy pass. A silence pass: histories over a smaller alphabet with 20 s / 41 s waits, each followed by every client falling silent for ping_interval + 3 x ping_timeout, after which both servers must have dropped every session with the same events; a history in which exactly one server has dropped a silent session is compared but not extended. The alphabet includes disconnect() of everybody (while at most one session has not been ended by its client).',
 'C19': 'Each plain poll is followed by a POST and an OPTIONS with the same Accept-Encoding on the same server (their acknowledgements pass the same compression step); JSONP polls during an upgrade handshake (lone NOOP). Polls released with zero packets by the CLOSE the client posted carry the payload of zero packets. Sequences of refused POSTs with gzip / nothing / deflate on offer: each 400 decodes by its own headers. http_compression switched off on the running server. Groups with an inbound size limit below the compression threshold.',
 'C20': 'All four slash spellings of each endpoint on every path of <= 2 segments; request sequences on one application object compared with a fresh application (history independence); repeated lifespan cycles. Names the file system rejects (300-character segment, embedded NUL, 4400-character path). The wrapped WSGI application answers with a one-shot iterator and the engineio.server logger is at INFO. Every path of <= 2 segments also as a WebSocket scope with a wrapped application. Without a wrapped application a WebSocket scope outside the endpoint is refused with websocket.close.',
}
for _p, _t in _ADD.items():
    CHECKS[_p]['text'] = CHECKS[_p]['text'].rstrip() + ' ' + _t
CHECKS['C10']['note'] = 'The network between the two real implementations is virtual (ordered, lossless hand-over to the WSGI/ASGI gateways, in zero time or after a fixed one-way delay with round trip below ping_timeout); only sends that reached quiescence before the hang-up are owed.'
