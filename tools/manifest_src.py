SETUP = "/venv/bin/python -B -m compileall -q vf >/dev/null; ./check-selftest"
HOOKS = {
    "guard": "ENGINEIO_VERIF",
    "enable": "no source hooks: the checks import engineio from /repo/src of the current working tree and rebind documented seams (Server._async, module-global time, secrets.token_bytes, http_session=) at run time; ./check exports ENGINEIO_VERIF=1 for uniformity only",
    "baseline_off_cmd": "/verif/tools/baseline.py /repo",
    "source_commits": [],
    "add_only": True,
}
ENGINES = [
    {"name": "vf", "path": "vf/", "serves_properties": [],
     "kind_free_text": "hand-written explicit-state / stateless explorer for Python: virtual clock, hand-stepped asyncio loop, baton-scheduled OS threads, in-memory WSGI/ASGI gateways; bounded-exhaustive enumeration drivers with reference models"},
]
NOTES = "All checks run the real engineio code from /repo/src. See DESIGN.md. Known findings: known_findings.json."
_PENDING = "check not built yet in this revision of /verif (model checking does apply; see DESIGN.md section 5)"
NOT_APPLICABLE = {}
CHECKS = {}

def _c(pid, category, technique, text, note, ref):
    CHECKS[pid] = dict(category=category, technique=technique, text=text, note=note, design_ref=ref)

_c('C01', 'exploration',
   'bounded-exhaustive input enumeration + exhaustive call-history search against a reference codec',
   'Every (type, payload) over an adversarial alphabet up to a length bound, all short byte strings, JSON values and look-alikes, on both channel kinds, and every sequence of encode calls up to a length on one packet object, is run through the real Packet and compared with an independent reference encoder/decoder. Complete within the stated bounds; says nothing about payload characters outside the alphabet.',
   'Python json/base64 modules are trusted as the definition of JSON and base64; payload kinds outside the documented API are not enumerated.',
   'DESIGN.md 5 C01')

ALL = ['C%02d' % i for i in range(1, 21)]
for p in ALL:
    if p not in CHECKS:
        NOT_APPLICABLE[p] = _PENDING
for e in ENGINES:
    e['serves_properties'] = sorted(CHECKS)
