#!/venv/bin/python
"""usage: keep_seed.py <ID-tag> <property> <caught_by comma list> <note>
Copies patch / demo / description from /tmp/mut/<ID-tag> into /verif/seeded/<ID-tag>/ and writes meta.json."""
import json, os, shutil, subprocess, sys
tag, prop, caught, note = sys.argv[1:5]
wt = '/tmp/mut/' + tag
dst = '/verif/seeded/' + tag
os.makedirs(dst, exist_ok=True)
diff = subprocess.check_output(['git', '-C', wt, 'diff']).decode()
open(os.path.join(dst, 'patch.diff'), 'w').write(diff)
shutil.copy(os.path.join(wt, 'demo_test.py'), os.path.join(dst, 'demo_test.py'))
needs = ''
if os.path.exists(os.path.join(wt, 'MUTANT.md')):
    shutil.copy(os.path.join(wt, 'MUTANT.md'), os.path.join(dst, 'MUTANT.md'))
    needs = open(os.path.join(wt, 'MUTANT.md')).read()[:1500]
base = subprocess.check_output(['git', '-C', wt, 'rev-parse', '--short', 'HEAD']).decode().strip()
meta = {
    'id': tag, 'property': prop, 'origin': 'independent sub-agent given only the property text and a scratch worktree',
    'base_commit': base, 'files': [l.split()[-1] for l in diff.splitlines() if l.startswith('+++ ')],
    'needs_to_manifest': note,
    'confirmed': {
        'baseline_with_change': '377/377 stable tests pass (tools/baseline.py on the scratch worktree)',
        'demo_with_change': 'exit 1', 'demo_without_change': 'exit 0',
        'commands': ['tools/validate_seed.sh /tmp/mut/%s' % tag, 'tools/try_patch.sh seeded/%s/patch.diff %s' % (tag, caught.replace(',', ' '))],
    },
    'caught_by': caught.split(','),
}
json.dump(meta, open(os.path.join(dst, 'meta.json'), 'w'), indent=1)
print('kept', dst)
