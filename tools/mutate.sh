#!/bin/sh
# usage: tools/mutate.sh '<python snippet editing files under src/engineio, cwd=/repo>' <ID> [args]  -- apply, run check, revert
SNIP=$1; shift
cd /repo && /venv/bin/python -c "$SNIP" || { git -C /repo checkout -- .; exit 2; }
git -C /repo diff --stat | tail -1
cd /verif && VERIF_SHOW=4 ./check "$@" --no-evidence 2>&1 | grep -E "what:|^C[0-9]+ " | cut -c1-300
git -C /repo checkout -- .
