#!/bin/sh
# usage: tools/time_tier.sh <tier> <ID...>  -- run checks without writing evidence, print wall time and verdict
TIER=$1; shift
cd /verif
for id in "$@"; do
  s=$(date +%s)
  ./check $id --tier $TIER --no-evidence > /tmp/vf_time_$id.log 2>&1; rc=$?
  e=$(date +%s)
  echo "$id tier=$TIER rc=$rc $((e-s))s $(grep -c '^KNOWN-FINDING' /tmp/vf_time_$id.log) known; $(grep -c '^VIOLATION' /tmp/vf_time_$id.log) viol"
done
