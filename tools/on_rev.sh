#!/bin/sh
# usage: tools/on_rev.sh <git-rev of /repo> <ID> [check args]   -- run a check against an older revision (scratch worktree, removed afterwards)
REV=$1; shift
D=$(mktemp -d /tmp/vf-rev-XXXXXX)
git -C /repo worktree add -q --detach "$D/wt" "$REV" || exit 2
VERIF_REPO="$D/wt" /verif/check "$@" --no-evidence
RC=$?
git -C /repo worktree remove --force "$D/wt"; rm -rf "$D"
exit $RC
