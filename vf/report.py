"""Reports, violations, known-finding matching, evidence writing."""
import hashlib
import json
import os
import subprocess
import sys


class HarnessError(Exception):
    """The harness (not the code under test) misbehaved: exit 2."""


class Livelock(Exception):
    """The closed, deterministic world did not reach quiescence within the
    step cap: the code under test is spinning (reported as a violation)."""


class Ctx:
    def __init__(self, pid, tier, seed, repo, workers, here):
        self.pid = pid
        self.tier = tier
        self.seed = seed
        self.repo = repo
        self.workers = workers
        self.here = here

    @property
    def quick(self):
        return self.tier == 'quick'


class Violation:
    """One failing case.

    sig: structured signature {impl, kind, site, trigger, ...} used for
         known-finding matching; text: one line; replay: JSON-able payload
         that check.replay() can re-execute; weight: sort key (smaller first).
    """
    def __init__(self, sig, text, replay, weight=(0, 0)):
        self.sig = dict(sig)
        self.text = text
        self.replay = replay
        self.weight = tuple(weight)

    def to_json(self):
        return {'sig': self.sig, 'text': self.text, 'replay': self.replay,
                'weight': list(self.weight)}

    @staticmethod
    def from_json(d):
        return Violation(d['sig'], d['text'], d['replay'],
                         tuple(d.get('weight', (0, 0))))


class Report:
    def __init__(self, pid, level):
        self.pid = pid
        self.level = level
        self.violations = []
        self.coverage = {}
        self.assumptions = []
        self.wall_s = 0.0
        self.notes = []

    def add(self, v):
        self.violations.append(v)


def _load_known(here):
    p = os.path.join(here, 'known_findings.json')
    if not os.path.exists(p):
        return []
    with open(p) as f:
        d = json.load(f)
    return d.get('findings', [])


def _matches(match, sig):
    for k, want in match.items():
        got = sig.get(k)
        if isinstance(want, list):
            if got not in want:
                return False
        elif got != want:
            return False
    return True


def jdefault(o):
    if isinstance(o, (bytes, bytearray)):
        return {'__bytes__': bytes(o).hex()}
    if isinstance(o, (set, frozenset)):
        return sorted(o, key=repr)
    if isinstance(o, tuple):
        return list(o)
    return repr(o)


def dumps(o, **kw):
    return json.dumps(o, default=jdefault, **kw)


def unbytes(o):
    """Inverse of jdefault for bytes, applied recursively."""
    if isinstance(o, dict):
        if set(o.keys()) == {'__bytes__'}:
            return bytes.fromhex(o['__bytes__'])
        return {k: unbytes(v) for k, v in o.items()}
    if isinstance(o, list):
        return [unbytes(v) for v in o]
    return o


def finish(ctx, rep, write_evidence=True):
    known = [k for k in _load_known(ctx.here) if k['property'] == ctx.pid]
    hit = {}
    unknown = []
    for v in rep.violations:
        sig = dict(v.sig)
        sig['property'] = ctx.pid
        for k in known:
            if _matches(k['match'], sig):
                hit.setdefault(k['id'], []).append(v)
                break
        else:
            unknown.append(v)
    for k in known:
        if k['id'] in hit:
            print('KNOWN-FINDING: property=%s %s [%s; %d failing case(s) '
                  'this run, e.g. %s]' % (
                      ctx.pid, k['text'], k['id'], len(hit[k['id']]),
                      hit[k['id']][0].text))
    unknown.sort(key=lambda v: (v.weight, v.text))
    outdir = os.path.join(ctx.here, 'out', 'replays')
    shown = 0
    seen_sig = set()
    for v in unknown:
        key = dumps(v.sig, sort_keys=True)
        if key in seen_sig:
            continue
        seen_sig.add(key)
        if shown >= int(os.environ.get("VERIF_SHOW", "8")):
            continue
        os.makedirs(outdir, exist_ok=True)
        blob = dumps({'property': ctx.pid, 'sig': v.sig, 'text': v.text,
                      'replay': v.replay}, sort_keys=True, indent=1)
        h = hashlib.blake2b(blob.encode(), digest_size=6).hexdigest()
        path = os.path.join(outdir, '%s-%s.json' % (ctx.pid, h))
        with open(path, 'w') as f:
            f.write(blob)
        print('VIOLATION property=%s replay=%s' % (ctx.pid, path))
        print('  what: %s' % v.text)
        print('  sig: %s' % dumps(v.sig, sort_keys=True))
        shown += 1
    if len(seen_sig) > shown:
        print('  (%d further distinct violation signatures not shown)'
              % (len(seen_sig) - shown))
    cov = dict(rep.coverage)
    cov.setdefault('known_findings_observed',
                   {k: len(v) for k, v in hit.items()})
    ev = {
        'property_id': ctx.pid,
        'tier': ctx.tier,
        'seed': ctx.seed,
        'level': rep.level,
        'coverage': cov,
        'assumptions': rep.assumptions,
        'wall_s': round(rep.wall_s, 3),
        'violations': len(unknown),
    }
    rc = 1 if unknown else 0
    if write_evidence:
        evdir = os.path.join(ctx.here, 'evidence')
        os.makedirs(evdir, exist_ok=True)
        evpath = os.path.join(evdir, ctx.pid + '.json')
        with open(evpath, 'w') as f:
            f.write(dumps(ev, indent=1, sort_keys=True))
            f.write('\n')
        ok, msg = validate_evidence(evpath)
        if not ok:
            print('HARNESS-ERROR property=%s evidence does not validate: %s'
                  % (ctx.pid, msg))
            return 2
    summ = {k: cov[k] for k in ('evaluations', 'distinct_nontrivial', 'states',
                                'transitions', 'traces_validated_against_impl',
                                'exhaustive', 'bound_completed', 'caps_hit')
            if k in cov}
    print('%s %s tier=%s seed=%d wall=%.1fs %s' % (
        ctx.pid, 'FAIL' if rc else 'ok', ctx.tier, ctx.seed, rep.wall_s,
        dumps(summ, sort_keys=True)))
    for n in rep.notes:
        print('  note:', n)
    return rc


_VALIDATOR = r'''
import json, sys, jsonschema
schema = json.load(open('/root/.vp/EVIDENCE.schema.json'))
doc = json.load(open(sys.argv[1]))
try:
    jsonschema.validate(doc, schema)
except jsonschema.ValidationError as e:
    print(str(e)[:400]); sys.exit(1)
'''


def validate_evidence(path):
    if not os.path.exists('/root/.vp/EVIDENCE.schema.json'):
        return True, 'schema not present; skipped'
    try:
        r = subprocess.run(['python3-vt', '-c', _VALIDATOR, path],
                           capture_output=True, text=True, timeout=120)
    except FileNotFoundError:
        return True, 'python3-vt not present; skipped'
    if r.returncode != 0:
        return False, (r.stdout + r.stderr)[-600:]
    return True, ''


def livelock_violation(impl, exc, replay, trigger='case'):
    return Violation({'impl': impl, 'kind': 'livelock', 'trigger': trigger},
                     '[%s] %s  replay=%s' % (impl, exc, dumps(replay, sort_keys=True)[:300]), replay)
