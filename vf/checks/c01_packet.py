"""C01 Packet encoding is the Engine.IO v4 wire form and decoding inverts it.

Bounded-exhaustive input enumeration against the reference codec plus an
exhaustive call-history search on single packet objects (every sequence of
encode calls up to a length bound, state = the real packet object).
"""
import itertools
import json

from vf import report
from vf.explore import parallel
from vf.models import codec

ALPHA = ['a', 'b', '1', '0', '-', '.', 'e', 'E', '"', '{', '}', '[', ']', ':',
         ',', ' ', '\x1e', '\n', '\x00', '\\', 'é', '٣', ' ',
         '\U0001F600']
BYTE3 = [0x00, 0x1e, 0x34, 0x62, 0x80, 0xff]
TYPES = list(range(7))


def _packet():
    from engineio import packet
    return packet


def _viol(kind, case, detail, trigger):
    return report.Violation(
        {'impl': 'codec', 'kind': kind, 'trigger': trigger},
        '%s: %s -> %s' % (kind, case, detail),
        {'harness': 'case', 'case': case}, weight=(0, len(repr(case))))


# --------------------------------------------------------------- one case

def check_payload(ptype, data, out, stats):
    """Encode on both channels, decode both representations, compare."""
    packet = _packet()
    case = {'type': ptype, 'data': data}
    is_bin = isinstance(data, (bytes, bytearray))
    if is_bin and ptype != 4:
        try:
            packet.Packet(ptype, data=data)
        except ValueError:
            return
        except Exception as e:
            out.append(_viol('wrong_exception', case, repr(e), 'binary_non_message'))
            return
        out.append(_viol('binary_non_message_accepted', case, 'no error',
                         'binary_non_message'))
        return
    for b64 in (False, True):
        ref = codec.ref_encode(ptype, data, b64)
        try:
            got = packet.Packet(ptype, data=data).encode(b64=b64)
        except Exception as e:
            out.append(_viol('encode_raised', dict(case, b64=b64), repr(e), 'fresh_encode'))
            continue
        if isinstance(ref, bytes):
            ok = isinstance(got, (bytes, bytearray)) and bytes(got) == ref
        else:
            ok = isinstance(got, str) and got == ref
        if not ok:
            out.append(_viol('encode_mismatch', dict(case, b64=b64),
                             'got %r want %r' % (got, ref), 'fresh_encode'))
            continue
        stats['encodes'] += 1
        # decode what was produced
        try:
            p = packet.Packet(encoded_packet=got)
        except Exception as e:
            out.append(_viol('decode_raised', dict(case, b64=b64, rep=got),
                             repr(e), 'roundtrip'))
            continue
        if is_bin:
            want_t, want_d, alts = 4, bytes(data), []
            okd = p.binary is True and isinstance(p.data, (bytes, bytearray)) \
                and bytes(p.data) == want_d
        else:
            if data is None:
                text = ''
            elif isinstance(data, str):
                text = data
            else:
                text = json.dumps(data, separators=(',', ':'))
            if isinstance(data, str) and data[:1] == 'b' and False:
                pass
            kind, want_d, alts = codec.classify_text(text)
            want_t = ptype
            okd = p.binary is False and (
                codec.payload_equal(p.data, want_d) or
                any(codec.payload_equal(p.data, a) for a in alts))
        if p.packet_type != want_t or not okd:
            out.append(_viol('roundtrip_mismatch', dict(case, b64=b64, rep=got),
                             'decoded type=%r binary=%r data=%r; want type=%r data=%r'
                             % (p.packet_type, p.binary, p.data, want_t, want_d),
                             'roundtrip'))
        stats['decodes'] += 1


def check_decode_string(s, out, stats):
    """Decode an arbitrary representation and compare with the reference."""
    packet = _packet()
    try:
        ref = codec.ref_decode(s)
    except codec.Undecodable:
        ref = None
    try:
        p = packet.Packet(encoded_packet=s)
    except Exception:
        stats['decode_errors'] += 1
        if ref is not None and not ref.get('lenient'):
            out.append(_viol('decode_refused_valid', {'rep': s}, 'raised',
                             'decode_string'))
        return
    except BaseException as e:
        out.append(_viol('decode_non_exception', {'rep': s}, repr(e), 'decode_string'))
        return
    stats['decodes'] += 1
    # a packet obtained by decoding is a packet: encoding it (either channel, any order) must give the
    # canonical representation of its type and payload, not whatever form it happened to arrive in
    if isinstance(p.data, (str, bytes, bytearray, dict, list)) or p.data is None:
        if 0 <= p.packet_type <= 6 and not (isinstance(p.data, (bytes, bytearray)) and p.packet_type != 4):
            for seq in ((False, True), (True, False)):
                q = packet.Packet(encoded_packet=s)
                for b64 in seq:
                    try:
                        want = codec.ref_encode(q.packet_type, q.data, b64)
                        got = q.encode(b64=b64)
                    except Exception as e:
                        out.append(_viol('reencode_raised', {'rep': s, 'b64': b64}, repr(e), 'decode_then_encode'))
                        break
                    same = (isinstance(want, bytes) and isinstance(got, (bytes, bytearray)) and bytes(got) == want) or \
                        (isinstance(want, str) and isinstance(got, str) and got == want)
                    if not same:
                        out.append(_viol('reencode_not_canonical', {'rep': s, 'b64': b64},
                                         'decoded to type=%r data=%r; encode(b64=%s) returned %r, canonical %r'
                                         % (q.packet_type, q.data, b64, got, want), 'decode_then_encode'))
                        break
                    stats['encodes'] += 1
    if p.binary and p.packet_type != 4:
        out.append(_viol('binary_non_message_decoded', {'rep': s},
                         'type=%r' % p.packet_type, 'decode_string'))
        return
    if ref is None:
        # the reference has no opinion on representations without a type
        # digit (only totality is required of them)
        return
    if ref.get('lenient'):
        if p.packet_type != 4 or not p.binary:
            out.append(_viol('b_prefix_not_binary_message', {'rep': s},
                             'type=%r binary=%r' % (p.packet_type, p.binary),
                             'decode_string'))
        return
    ok = p.packet_type == ref['type'] and p.binary == ref['binary'] and (
        codec.payload_equal(p.data, ref['data']) or
        any(codec.payload_equal(p.data, a) for a in ref['alts']))
    if not ok:
        out.append(_viol('decode_mismatch', {'rep': s},
                         'decoded type=%r binary=%r data=%r; want %r'
                         % (p.packet_type, p.binary, p.data, ref), 'decode_string'))


CALLS = ['raw', 'b64', 'payload']


def check_history(ptype, data, seq, out, stats):
    """One sequence of encode calls on one packet object."""
    packet = _packet()
    from engineio import payload
    pkt = packet.Packet(ptype, data=data)
    for i, call in enumerate(seq):
        b64 = call != 'raw'
        ref = codec.ref_encode(ptype, data, b64)
        try:
            if call == 'payload':
                got = payload.Payload(packets=[pkt]).encode()
            else:
                got = pkt.encode(b64=b64)
        except Exception as e:
            out.append(report.Violation(
                {'impl': 'codec', 'kind': 'encode_history_raised',
                 'trigger': 'binary' if isinstance(data, (bytes, bytearray)) else 'text'},
                'call #%d %s of %r on Packet(%r, %r) raised %r' % (i, call, seq, ptype, data, e),
                {'harness': 'history', 'type': ptype, 'data': data, 'seq': list(seq)},
                weight=(0, len(seq))))
            return
        if isinstance(ref, bytes):
            ok = isinstance(got, (bytes, bytearray)) and bytes(got) == ref
        else:
            ok = isinstance(got, str) and got == ref
        if not ok:
            out.append(report.Violation(
                {'impl': 'codec', 'kind': 'encode_history_mismatch',
                 'trigger': 'binary' if isinstance(data, (bytes, bytearray)) else 'text'},
                'call #%d %s of %r on Packet(%r, %r) returned %r, want %r'
                % (i, call, seq, ptype, data, got, ref),
                {'harness': 'history', 'type': ptype, 'data': data, 'seq': list(seq)},
                weight=(0, len(seq))))
            return
    stats['histories'] += 1


def check_aliasing(value, out, stats):
    """What a receiver does with a decoded payload is its own business: decoding the same representation again (same or
    another packet type, after the first result was emptied / extended in place) returns the payload written in the packet;
    and a sender that changes its object after encode() gets the new content from a new packet."""
    import copy
    import json as _json
    packet = _packet()
    text = _json.dumps(value, separators=(',', ':'))
    for t1, t2 in ((4, 4), (4, 3), (2, 4)):
        stats['cases'] += 1
        stats['nontrivial'] += 1
        ref = copy.deepcopy(value)
        try:
            first = packet.Packet(encoded_packet=str(t1) + text).data
            if isinstance(first, dict):
                first.clear()
                first['injected'] = 1
            elif isinstance(first, list):
                first.append('injected')
                for x in first:
                    if isinstance(x, (dict, list)):
                        x.clear()
            second = packet.Packet(encoded_packet=str(t2) + text).data
            stats['decodes'] += 2
        except Exception as e:
            out.append(_viol('decode_raised', {'harness': 'aliasing', 'value': ref}, 'decoding %r twice raised %r' % (text, e), 'aliasing'))
            continue
        if not codec.payload_equal(second, ref) or type(second) is not type(ref):
            out.append(_viol('decode_mismatch', {'harness': 'aliasing', 'value': ref},
                             'second decode of %r (after the receiver of the first had changed its copy in place) returned %r, want %r'
                             % (str(t2) + text, second, ref), 'aliasing'))
    # sender side: the object is changed between two packets built from it
    obj = copy.deepcopy(value)
    try:
        e1 = packet.Packet(4, data=obj).encode()
        if isinstance(obj, dict):
            obj['later'] = True
        elif isinstance(obj, list):
            obj.append('later')
        e2 = packet.Packet(4, data=obj).encode()
        want2 = codec.ref_encode(4, obj, True)
        stats['encodes'] += 2
        if e2 != want2:
            out.append(_viol('encode_mismatch', {'harness': 'aliasing', 'value': copy.deepcopy(value)},
                             'a packet built from an object changed since an earlier encode() encodes to %r, want %r (earlier: %r)' % (e2, want2, e1),
                             'aliasing'))
    except Exception as e:
        out.append(_viol('encode_raised', {'harness': 'aliasing', 'value': copy.deepcopy(value)}, 'encoding raised %r' % (e,), 'aliasing'))


# ------------------------------------------------------------- enumerations

def strings_upto(alpha, n):
    for k in range(0, n + 1):
        for t in itertools.product(alpha, repeat=k):
            yield ''.join(t)


def json_lookalikes():
    atoms = ['null', 'true', 'false', '0', '-0', '1', '-1', '01', '12', '1.5',
             '-1.5e3', '1e5', '1E-2', '.5', '5.', '"x"', '""', '"a\\"b"',
             '"\\u00e9"', 'NaN', 'Infinity', '-Infinity', '1' * 100, '1' * 101,
             '-' + '9' * 120, 'x', "'x'", '"unterminated']
    out = list(atoms)
    for a in atoms:
        out.append('[' + a + ']')
        out.append('{"k":' + a + '}')
        out.append(' ' + a + ' ')
        out.append('\n' + a)
        out.append(a + ',')
        out.append('[' + a + ',' + a + ']')
    for a in atoms[:12]:
        for b in atoms[:12]:
            out.append('[' + a + ',' + '{"k":' + b + '}]')
            out.append('{"a":' + a + ',"b":[' + b + ']}')
    out += ['[', ']', '{', '}', '[]', '{}', '[[]]', '{"a":{}}', '[1,]', '{"a"}',
            '{1:2}', '[1 2]', 'b', 'bAAE=', 'b====', 'probe', '2probe']
    return out


def json_values():
    leaves = ['s', '', 'é ', 0, 1, -7, 1.5, True, False, None]
    vals = []
    for a in leaves:
        vals.append([a])
        vals.append({'k': a})
    for a, b in itertools.product(leaves, repeat=2):
        vals.append([a, b])
        vals.append({'a': a, 'b': [b]})
        vals.append([{'x': a}, [b]])
    vals += [[], {}, [[]], {'a': {}}, {'': ''}]
    return vals


def byte_strings(thorough):
    yield b''
    for a in range(256):
        yield bytes([a])
    for a in range(256):
        for b in range(256):
            yield bytes([a, b])
    for t in itertools.product(BYTE3, repeat=3):
        yield bytes(t)
    yield bytes(range(256))
    yield b'\x00' * 1000
    for n in (3072, 4096, 4097, 8193, 65537):
        yield bytes((i * 11 + n) % 256 for i in range(n))


def _work(chunk):
    """chunk = (kind, items) ; returns (violations-json, stats)."""
    kind, items = chunk
    out = []
    stats = {'encodes': 0, 'decodes': 0, 'decode_errors': 0, 'histories': 0,
             'cases': 0, 'nontrivial': 0}
    if kind == 'text':
        for s in items:
            for t in TYPES:
                check_payload(t, s, out, stats)
                stats['cases'] += 1
                if s:
                    stats['nontrivial'] += 1
            # the same string as a raw representation handed to the decoder
            check_decode_string(s, out, stats)
            for t in ('4', '7', 'b'):
                check_decode_string(t + s, out, stats)
    elif kind == 'value':
        for v in items:
            for t in TYPES:
                check_payload(t, v, out, stats)
                stats['cases'] += 1
                stats['nontrivial'] += 1
    elif kind == 'bytes':
        for b in items:
            for t in TYPES:
                for conv in (bytes, bytearray):
                    check_payload(t, conv(b), out, stats)
                    stats['cases'] += 1
                    if b:
                        stats['nontrivial'] += 1
            check_decode_string(b, out, stats)
            check_decode_string(bytearray(b), out, stats)
    elif kind == 'json_modules':
        # the json= constructor argument of servers and clients installs another module on Packet: typing on decode and
        # the wire form on encode do not depend on which (standards-conforming) module that is
        import json as _stdjson
        from engineio import packet as _pk

        class AppJSON:
            @staticmethod
            def dumps(*a, **k):
                return _stdjson.dumps(*a, **k)

            @staticmethod
            def loads(*a, **k):
                return _stdjson.loads(*a, **k)
        saved = _pk.Packet.json
        try:
            for mod in (_stdjson, AppJSON):
                _pk.Packet.json = mod
                n0 = len(out)
                for x in items:
                    if isinstance(x, str):
                        check_payload(4, x, out, stats)
                        check_decode_string(x, out, stats)
                        check_decode_string('4' + x, out, stats)
                    else:
                        check_payload(4, x, out, stats)
                    stats['cases'] += 1
                    stats['nontrivial'] += 1
                for v in out[n0:]:
                    v.text = '[Packet.json = %s] ' % ('stdlib json' if mod is _stdjson else 'application class') + v.text
                    v.sig = dict(v.sig, trigger='custom_json_module')
        finally:
            _pk.Packet.json = saved
    elif kind == 'aliasing':
        for v in items:
            check_aliasing(v, out, stats)
    elif kind == 'history':
        for (t, d, n) in items:
            for k in range(1, n + 1):
                for seq in itertools.product(CALLS, repeat=k):
                    check_history(t, d, seq, out, stats)
                    stats['cases'] += 1
                    stats['nontrivial'] += 1
    return [v.to_json() for v in out[:200]], stats, len(out)


def run(ctx):
    rep = report.Report('C01', 'exploration')
    n = 3 if ctx.quick else 4
    hist_n = 3 if ctx.quick else 5
    texts = list(strings_upto(ALPHA, n)) + json_lookalikes()
    texts = list(dict.fromkeys(texts))
    values = json_values()
    bts = list(byte_strings(not ctx.quick))
    reps = [(4, 'x'), (4, ''), (4, 'b64?'), (4, {'a': [1, 'x']}), (4, [1]),
            (4, None), (4, b'\x00\x01'), (4, b''), (4, bytearray(b'\xff\x1e')),
            (4, bytes(range(256)))]
    for t in (0, 1, 2, 3, 5, 6):
        reps += [(t, None), (t, 'probe'), (t, {'sid': 'x'})]
    hist = [(t, d, hist_n) for t, d in reps]
    chunks = [('text', c) for c in parallel.split(texts, ctx.workers * 4)]
    chunks += [('value', c) for c in parallel.split(values, 2)]
    chunks += [('bytes', c) for c in parallel.split(bts, ctx.workers)]
    chunks += [('history', c) for c in parallel.split(hist, ctx.workers)]
    chunks += [('json_modules', json_lookalikes() + values + ['', 'plain', '0', '-7', '1e3', 'true', 'null'])]
    chunks += [('aliasing', [v for v in values if isinstance(v, (dict, list))] +
                [{'type': 'add', 'items': [1, 2]}, [{'a': [1]}, [2]], {'k': {'n': {}}}, [], {}])]
    res = parallel.pmap_chunks(_work, chunks, ctx.workers, ctx.seed)
    tot = {}
    nviol = 0
    for vs, st, nv in res:
        nviol += nv
        for v in vs:
            rep.add(report.Violation.from_json(v))
        for k, v in st.items():
            tot[k] = tot.get(k, 0) + v
    rep.coverage = {
        'evaluations': tot['encodes'] + tot['decodes'] + tot['decode_errors'],
        'distinct_nontrivial': tot['nontrivial'],
        'rule': 'every (type, payload) over: all strings of length <= %d over a '
                '%d-symbol adversarial alphabet, %d JSON look-alikes, %d JSON values, '
                'all byte strings of length <= 2 and length 3 over 6 bytes (bytes and '
                'bytearray), None; x both channel kinds; every raw string/bytes also fed '
                '(and, when it decodes to an API payload, re-encoded on both channels in both orders and compared with the canonical form) '
                'to the decoder as a representation (plain and prefixed 4/7/b); every '
                'sequence of <= %d encode calls over {raw,b64,Payload.encode} on %d '
                'representative packets; the JSON look-alikes and values again with Packet.json set to the standard library module and to an application class (the json= option). A case is non-trivial when its payload is '
                'non-empty (distinct by construction of the enumeration).'
                % (n, len(ALPHA), len(json_lookalikes()), len(values), hist_n, len(reps)),
        'samples': [{'type': 4, 'data': '{"a":1}'}, {'type': 2, 'data': 'probe'},
                    {'type': 4, 'data': {'__bytes__': '001e'}},
                    {'history': ['raw', 'payload', 'b64'], 'packet': [4, {'__bytes__': '0001'}]},
                    {'representation': 'b!'}, {'representation': '4٣'}],
        'exhaustive': True,
        'cases': tot['cases'], 'encode_calls_checked': tot['encodes'],
        'decodes_checked': tot['decodes'], 'decoder_rejections': tot['decode_errors'],
        'encode_histories': tot['histories'],
        'violating_cases_total': nviol,
    }
    rep.assumptions = [
        'payload kinds outside the documented API (int, float, bool objects) are not enumerated',
        'NaN/Infinity literals and containers holding >100-digit integers may come back as text or value (DESIGN S4)',
        'invalid base64 after b: only totality and MESSAGE/binary classification are required',
    ]
    return rep


def replay(ctx, payload):
    r = report.unbytes(payload['replay'])
    out = []
    stats = {'encodes': 0, 'decodes': 0, 'decode_errors': 0, 'histories': 0}
    if r['harness'] == 'history':
        check_history(r['type'], r['data'], r['seq'], out, stats)
    elif isinstance(r.get('case'), dict) and r['case'].get('harness') == 'aliasing':
        stats.update(cases=0, nontrivial=0)
        check_aliasing(r['case']['value'], out, stats)
    else:
        c = r['case']
        if 'rep' in c and 'type' not in c:
            check_decode_string(c['rep'], out, stats)
        else:
            check_payload(c['type'], c['data'], out, stats)
    for v in out:
        print('REPLAY VIOLATION:', v.text)
    print('replayed; violations=%d' % len(out))
    return 1 if out else 0
