"""C09 Client protocol conduct: PONG echo, ordered exactly-once I/O, probe
upgrade.

Schedule / history search on the real Client and AsyncClient against a
scripted server: server pushes (message bursts of every payload kind, PINGs
with arbitrary data, NOOPs, unknown types) and application send() calls run as
parallel scripts under all interleavings and up to D deviations, on polling,
WebSocket and across the upgrade (probe answered correctly / wrongly / not at
all); silence starting at every point; plus an exhaustive product of URLs
against a reference URL builder.
"""
import base64
import itertools
import json
import urllib.parse

from vf import report
from vf.explore import core, parallel
from vf.models import codec
from vf.vworld import cworld

OPEN = {'sid': 'S1', 'upgrades': [], 'pingInterval': 1000, 'pingTimeout': 1000, 'maxPayload': 1000000}
PUSHES = {
    'burst': ['4t1', '4{"j":2}', 'bAAEC'],
    'ping': ['2'],
    'pingx': ['2data-\u00e9'],
    'noop': ['6'],
    'unknown': ['9zz'],
    'msg': ['4solo'],
    'ping_msg': ['2p2', '4after-ping'],
    'ping_number': ['20.0', '2-7.50'],           # PING data that decode to numbers (one of them falsy): echoed as written
    'bin_empty': ['b', '4after-empty'],      # a binary MESSAGE with no bytes (an empty binary frame on WebSocket), then text
}
EXPECT_MSG = {'4t1': 't1', '4{"j":2}': {'j': 2}, 'bAAEC': b'\x00\x01\x02', '4solo': 'solo', '4after-ping': 'after-ping', 'b': b'', '4after-empty': 'after-empty'}
SENDS = ['s-text', b'\xfe\xff', {'k': [1, 'v']}, 's-last']
HANDLER_SENDS = ['hc-1', bytearray(b'\x01hc'), {'hc': 3}]       # a bytearray is binary data too
IV, TO = 1.0, 1.0
BEAT_LAG = 0.375       # delay of each PONG on its way to the server in the steady-heartbeat scenarios


class Conduct(core.Scenario):
    def build(self):
        p = self.params
        self.impl = p['impl']
        w = self.world = cworld.make_client_world(self.impl)
        if p.get('connect_sends'):
            # the application sends from inside its connect handler
            w.effects['connect'] = lambda arg: [('send', x) for x in HANDLER_SENDS[:p['connect_sends']]]
        self.mode = p['mode']            # polling / websocket / upgrade_ok / upgrade_wrong / upgrade_silent / upgrade_refused
        self.horizon = 9.0 if self.mode != 'upgrade_silent' else 16.0
        self.silent_from = None
        tr = {'polling': ['polling'], 'websocket': ['websocket']}.get(self.mode, None)
        self.conn = w.call('connect', 'http://srv', transports=tr)
        srv = []
        opn = dict(OPEN, upgrades=['websocket'] if self.mode.startswith('upgrade') else [])

        def en_get(s):
            return bool(s.world.server.pending_reqs('GET'))

        def en_ws(s):
            return bool(s.world.server.pending_ws())

        def live_ws(s):
            return [x for x in s.world.server.wss if x.accepted and not x.closed_by_client]

        if self.mode == 'websocket':
            srv.append(core.Action('WS<-accept', lambda s: s.world.ws_decide(s.world.server.pending_ws()[0], True), en_ws))
            srv.append(core.Action('WS<-open', lambda s: s.world.ws_push(live_ws(s)[-1], '0' + json.dumps(opn)), lambda s: bool(live_ws(s))))
        else:
            piggy = ''.join('\x1e' + x for x in p.get('piggy', []))
            srv.append(core.Action('GET<-open', lambda s: s.world.answer(s.world.server.pending_reqs('GET')[0], 200, '0' + json.dumps(opn) + piggy), en_get))
            if self.mode == 'upgrade_refused':
                srv.append(core.Action('WS<-refuse', lambda s: s.world.ws_decide(s.world.server.pending_ws()[0], False), en_ws))
            elif self.mode in ('upgrade_unreachable', 'upgrade_timeout'):
                # the upgrade connection fails with an OSError that is not a ConnectionError (no route to host, socket timeout)
                how = self.mode[len('upgrade_'):]
                srv.append(core.Action('WS<-' + how, lambda s: s.world.ws_decide(s.world.server.pending_ws()[0], False, how), en_ws))
            elif self.mode.startswith('upgrade'):
                srv.append(core.Action('WS<-accept', lambda s: s.world.ws_decide(s.world.server.pending_ws()[0], True), en_ws))
                ans = {'upgrade_ok': '3probe', 'upgrade_wrong': '3other', 'upgrade_silent': None}[self.mode]
                if ans is not None:
                    srv.append(core.Action('WS<-' + ans, lambda s: s.world.ws_push(live_ws(s)[-1], ans),
                                           lambda s: bool(live_ws(s)) and any(f[3] == '2probe' for f in live_ws(s)[-1].sent)))
        self.on_ws = self.mode in ('websocket', 'upgrade_ok')
        rel = []
        if p.get('stall') and self.on_ws:
            # the server stops reading for a while: the client's next write blocks inside the socket, frames keep arriving
            en_on_ws = lambda s: bool(live_ws(s)) and s.world.client.state == 'connected' and \
                s.world.client.current_transport == 'websocket'                                    # noqa: E731
            srv.append(core.Action('WS<-stall', lambda s: setattr(live_ws(s)[-1], 'stall', True), en_on_ws))
            rel.append(core.Action('WS<-release', lambda s: s.world.ws_release(live_ws(s)[-1]),
                                   lambda s: bool(live_ws(s)) and live_ws(s)[-1].stall and live_ws(s)[-1].stalled > 0))
        for name in p['pushes']:
            pk = PUSHES[name]
            if self.on_ws:
                for one in pk:
                    item = base64.b64decode(one[1:]) if one.startswith('b') else one

                    def fire(s, item=item):
                        s.world.ws_push(live_ws(s)[-1], item)
                        s.last_answer = s.world.now
                    srv.append(core.Action('WS<-' + one[:6], fire,
                                           lambda s: bool(live_ws(s)) and s.world.client.state == 'connected' and
                                           s.world.client.current_transport == 'websocket'))
            else:
                def fire(s, pk=pk):
                    s.world.answer(s.world.server.pending_reqs('GET')[0], 200, '\x1e'.join(pk))
                    s.last_answer = s.world.now
                srv.append(core.Action('GET<-' + name, fire, lambda s: en_get(s) and s.world.client.state == 'connected'))
        # a steady heartbeat: the server PINGs every ping_interval plus the time the previous PONG took to arrive (BEAT_LAG)
        for k in range(p.get('beat', 0)):
            def beat(s):
                if s.on_ws:
                    s.world.ws_push(live_ws(s)[-1], '2')
                else:
                    s.world.answer(s.world.server.pending_reqs('GET')[0], 200, '2')
                s.last_answer = s.world.now
            en = (lambda s: bool(live_ws(s)) and s.world.client.state == 'connected' and s.world.client.current_transport == 'websocket') \
                if self.on_ws else (lambda s: en_get(s) and s.world.client.state == 'connected')
            srv.append(core.Action('beat%d' % k, beat, en, (k + 1) * (IV + BEAT_LAG)))
        if p.get('beat'):
            self.horizon = p['beat'] * (IV + BEAT_LAG) + IV + TO + 7.0
        self.last_answer = 0.0
        app = []
        self.send_calls = {}
        for i in range(p['nsend']):
            def fire(s, i=i):
                s.send_calls[i] = (s.world.nstep, s.world.call('send', SENDS[i]))
            app.append(core.Action('send#%d' % i, fire, lambda s: s.conn.done and not s.conn.exc))
            if p.get('connect_again') and i == 0:
                # the application (a retry timer, another task) calls connect() on the client that is already connected: it is
                # refused with ValueError and must leave the live connection alone
                def again(s):
                    s.again = s.world.call('connect', 'http://srv', transports=tr)
                app.append(core.Action('connect-again', again, lambda s: s.conn.done and not s.conn.exc and s.world.client.state == 'connected'))
        self.scripts = [srv, app, [], rel]

    def step_check(self):
        # POSTs are acknowledged as they appear
        w = self.world
        for pr in w.server.pending_reqs('POST'):
            if getattr(pr, 'queued', False):
                continue
            pr.queued = True
            self.scripts[2].append(core.Action('POST<-ok', lambda s, pr=pr: s.world.answer(pr, 200, 'ok')))

    # ------------------------------------------------------------ verdicts
    def client_output(self):
        """Packets the server received from the client, in order, as
        (channel, type, payload) with channel 'polling' or 'websocket'."""
        w = self.world
        out = []
        items = []
        self.raw_pongs = []       # PONG packets exactly as written by the client (text after the type digit)
        for r in w.server.reqs:
            if r.method == 'POST':
                items.append((r.step, 'post', r))
        for s in w.server.wss:
            for f in s.sent:
                items.append((f[1], 'frame', f))
        items.sort(key=lambda x: x[0])
        for _, kind, x in items:
            if kind == 'post':
                try:
                    body = x.body if isinstance(x.body, str) else (x.body or b'').decode('utf-8')
                except UnicodeDecodeError:
                    out.append(('polling', None, x.body, 'garbage'))
                    continue
                for seg in body.split('\x1e') if body else []:
                    if seg[:1] == '3' and seg != '3probe':
                        self.raw_pongs.append(seg[1:])
                    try:
                        d = codec.ref_decode(seg)
                        out.append(('polling', d['type'], d['data'], 'b64' if d['binary'] else 'text'))
                    except codec.Undecodable:
                        out.append(('polling', None, seg, 'garbage'))
            else:
                t, step, fk, data = x
                if fk == 'binary':
                    out.append(('websocket', 4, data, 'binary'))
                else:
                    if isinstance(data, str) and data[:1] == '3' and data != '3probe':
                        self.raw_pongs.append(data[1:])
                    try:
                        d = codec.ref_decode(data)
                        out.append(('websocket', d['type'], d['data'], 'text-frame-bytes' if isinstance(data, bytes) else 'text'))
                    except codec.Undecodable:
                        out.append(('websocket', None, data, 'garbage'))
        return out

    def finish(self):
        w = self.world
        p = self.params
        trig = p['mode']
        if not self.conn.done or self.conn.exc:
            self.flag('connect_failed', 'connect(): done=%s exc=%r' % (self.conn.done, self.conn.exc), trigger=trig)
            return
        out = self.client_output()
        junk = [(ch, d) for ch, t, d, k in out if k == 'garbage']
        if junk:
            self.flag('undecodable_output', 'the client put undecodable data on the wire: %r' % (junk[:2],), trigger=trig)
        ag = getattr(self, 'again', None)
        if ag is not None and (not ag.done or not ag.exc or ag.exc['type'] != 'ValueError'):
            self.flag('second_connect_not_refused', 'connect() on a connected client: done=%s exc=%r (want ValueError)' % (ag.done, ag.exc), trigger=trig)
        # ---- PONG echo: one PONG with identical data per PING
        pings = [x[1:] for x in p.get('piggy', []) if x.startswith('2')]
        for name in p['pushes']:
            for one in PUSHES[name]:
                if one.startswith('2'):
                    pings.append(one[1:])
        pings += [''] * p.get('beat', 0)
        pongs = [(d or '') for ch, t, d, k in out if t == 3 and d != 'probe']
        # the same data, in order: compared as decoded values (a PING whose text is a JSON number comes back as that number,
        # possibly written differently)
        want_p = [codec.ref_decode('2' + x)['data'] for x in pings]
        got_p = [codec.ref_decode('3' + x)['data'] for x in self.raw_pongs]
        if len(want_p) != len(got_p) or not all(type(a) is type(b) and codec.payload_equal(a, b) for a, b in zip(got_p, want_p)):
            self.flag('pong_echo_wrong', 'PINGs with data %r were answered by PONGs %r' % (pings, self.raw_pongs), trigger=trig)
        # ---- server messages reach the handler once, in arrival order, decoded
        want_msgs = [x[1:] for x in p.get('piggy', []) if x.startswith('4')]
        for name in p['pushes']:
            for one in PUSHES[name]:
                if one in EXPECT_MSG:
                    want_msgs.append(EXPECT_MSG[one])
        got_msgs = [e[1] for e in w.events if e[0] == 'message']
        disp = list(w.dispatch_log)
        # order is judged at dispatch (background handlers), exactly-once at the handlers themselves
        if len(disp) != len(want_msgs) or not all(codec.payload_equal(a, b) for a, b in zip(disp, want_msgs)):
            self.flag('messages_to_handler_wrong', 'dispatched %r, server sent %r' % (disp, want_msgs), trigger=trig)
        pool = list(want_msgs)
        for g in got_msgs:
            for k, x in enumerate(pool):
                if codec.payload_equal(g, x):
                    del pool[k]
                    break
            else:
                self.flag('messages_to_handler_wrong', 'handler ran for %r which the server did not send (or twice)' % (g,), trigger=trig)
        if pool:
            self.flag('messages_to_handler_wrong', 'handlers never ran for %r' % (pool,), trigger=trig)
        # ---- application sends: once, in order, right encoding on the transport in use
        sent = [(ch, d, k) for ch, t, d, k in out if t == 4]
        hk = p.get('connect_sends', 0)
        want = HANDLER_SENDS[:hk] + SENDS[:p['nsend']]

        def norm(x):
            return bytes(x) if isinstance(x, (bytes, bytearray)) else x
        # exactly once each
        pos = {}
        pool = list(enumerate(want))
        okm = len(sent) == len(want)
        for idx, (ch, d, k) in enumerate(sent):
            for j, (i, wv) in enumerate(pool):
                if codec.payload_equal(norm(d), wv):
                    pos[i] = idx
                    del pool[j]
                    break
            else:
                okm = False
        if not okm or pool:
            self.flag('sends_wrong', 'server received messages %r, application sent %r' % (sent, want), trigger=trig)
        else:
            # order is owed between sends where the earlier call had returned before the later one was issued
            for i in range(len(want)):
                for j in range(i + 1, len(want)):
                    ci, cj = self.send_calls.get(i - hk), self.send_calls.get(j - hk)
                    if j < hk and pos[i] > pos[j]:
                        self.flag('sends_wrong', 'server received %r: the sends made one after the other inside the connect handler '
                                  'arrived out of order' % (sent,), trigger=trig)
                    if ci and cj and ci[1].done and ci[1].step_done is not None and ci[1].step_done <= cj[0] and pos[i] > pos[j]:
                        self.flag('sends_wrong', 'server received %r: send #%d overtook send #%d although #%d had returned first'
                                  % (sent, j, i, i), trigger=trig)
        ordered = [sent[pos[i]] for i in range(len(want))] if okm and not pool else []
        for (ch, d, k), orig in zip(ordered, want):
            if isinstance(orig, (bytes, bytearray)):
                if ch == 'websocket' and k != 'binary':
                    self.flag('binary_not_binary_frame', 'bytes payload went out as %s on WebSocket' % k, trigger=trig)
                if ch == 'polling' and k != 'b64':
                    self.flag('binary_not_base64', 'bytes payload went out as %s in a POST body' % k, trigger=trig)
            elif k not in ('text',):
                self.flag('text_wrong_encoding', 'text/JSON payload went out as %s' % k, trigger=trig)
        # ---- upgrade only through the probe handshake
        frames = [(k, d) for s in w.server.wss for (_, _, k, d) in s.sent]
        if self.mode.startswith('upgrade') and self.mode not in ('upgrade_refused', 'upgrade_unreachable', 'upgrade_timeout'):
            first = [d for k, d in frames[:1]]
            if first != ['2probe']:
                self.flag('upgrade_without_probe', 'first frame on the upgrade socket: %r' % first, trigger=trig)
            upgraded = ('text', '5') in frames
            if upgraded != (self.mode == 'upgrade_ok'):
                self.flag('upgrade_decision_wrong', 'UPGRADE packet sent=%s although the probe was answered %s' % (upgraded, self.mode), trigger=trig)
            if self.mode != 'upgrade_ok':
                if [f for f in frames if f != ('text', '2probe')]:
                    self.flag('frames_after_failed_probe', 'frames %r on a socket whose probe failed' % frames, trigger=trig)
                if any(ch == 'websocket' for ch, d, k in sent):
                    self.flag('wrong_transport', 'application data sent on a WebSocket that was never upgraded', trigger=trig)
            else:
                i5 = frames.index(('text', '5')) if upgraded else -1
                if any(f[0] == 'binary' or (isinstance(f[1], str) and f[1][:1] == '4') for f in frames[:i5]):
                    self.flag('data_before_upgrade', 'application data on the socket before UPGRADE: %r' % frames, trigger=trig)
        # ---- silence: the client declares the connection lost in bounded time
        disc = [e for e in w.events if e[0] == 'disconnect']
        grace = 0.0 if (self.on_ws and w.client.current_transport == 'websocket') else 5.0
        t0 = max([self.last_answer] + [r.t for r in w.server.reqs if r.method == 'GET'][-1:])
        bound = t0 + IV + TO + grace
        if not disc:
            self.flag('silence_not_detected', 'no disconnect by %.2f although the server has been silent since %.2f (bound %.2f)' % (w.now, t0, bound), trigger=trig)
        elif len(disc) != 1 or disc[0][1] != 'transport error':
            self.flag('silence_wrong_outcome', 'disconnect events %r' % [(e[1], e[2]) for e in disc], trigger=trig)
        elif disc[0][2] > bound + 1e-9:
            self.flag('silence_detected_late', 'transport error at %.3f, bound %.3f' % (disc[0][2], bound), trigger=trig)
        # ---- a connection made after the loss is a fresh version-4 handshake (no leftovers of the old session)
        if disc and self.mode in ('polling', 'websocket'):
            nreq, nws = len(w.server.reqs), len(w.server.wss)
            tr = {'polling': ['polling'], 'websocket': ['websocket']}[self.mode]
            c2 = w.call('connect', 'http://srv/?token=abc', transports=tr)
            w.run()
            urls = [r.url for r in w.server.reqs[nreq:]] + [x.url for x in w.server.wss[nws:]]
            if not urls:
                self.flag('reconnect_made_no_request', 'connect() after the loss made no request (done=%s exc=%r)' % (c2.done, c2.exc), trigger=trig)
            else:
                q = urllib.parse.parse_qs(urllib.parse.urlparse(urls[0]).query)
                if 'sid' in q or q.get('EIO') != ['4'] or q.get('token') != ['abc'] or q.get('transport') != tr:
                    self.flag('reconnect_not_fresh', 'connect() after the loss requested %r' % urls[0], trigger=trig)
                for x in w.server.wss[nws:]:
                    w.ws_decide(x, True)
                w.run()
                early = [f[3] for x in w.server.wss[nws:] for f in x.sent]
                if early:
                    self.flag('reconnect_not_fresh', 'the new WebSocket connection sent %r before receiving OPEN' % early, trigger=trig)
            for pr in w.server.pending_reqs():
                w.fail(pr)
            for x in w.server.wss[nws:]:
                w.ws_push(x, ('close',))
            w.run_until(w.now + 7)

    def observation(self):
        w = self.world
        return {'out': [(ch, t, k) for ch, t, d, k in self.client_output()],
                'events': [(e[0], e[1] if e[0] != 'connect' else None) for e in w.events],
                'scenario': report.dumps(self.params, sort_keys=True)}


# ------------------------------------------------------------------- URLs

def ref_url(url, path, transport):
    u = urllib.parse.urlparse(url)
    scheme = {'polling': 'http', 'websocket': 'ws'}[transport] + ('s' if u.scheme in ('https', 'wss') else '')
    return scheme, u.netloc, '/' + path.strip('/') + '/', sorted(urllib.parse.parse_qsl(u.query, keep_blank_values=True, encoding='latin-1'))


def url_cases():
    for scheme, host, path, query, ep, tr in itertools.product(
            ['http', 'https', 'ws', 'wss'], ['h', 'h:8080', '[::1]:9'], ['', '/', '/x/y'],
            ['', 'a=1', 'a=1&b=%20&c=', 'token=&debug&a=1&a=2', 'name=caf%E9&x=a%2Fb+c%26d'], ['engine.io', '/engine.io/', 'a/b'], ['polling', 'websocket']):
        yield ('%s://%s%s%s' % (scheme, host, path, ('?' + query) if query else ''), ep, tr)
    # the caller's order of transports decides which one is tried first
    for scheme in ('http', 'wss'):
        for tr in ('websocket+polling', 'polling+websocket'):
            yield ('%s://h/x?a=1' % scheme, 'engine.io', tr)


def check_urls(impl, cases):
    out = []
    n = 0
    for url, ep, tr in cases:
        w = cworld.make_client_world(impl)
        try:
            order = tr.split('+')        # 'websocket+polling': the caller's list, first choice first
            tr = order[0]
            c = w.call('connect', url, transports=order, engineio_path=ep)
            w.run()
            if tr == 'polling':
                got = [r.url for r in w.server.reqs][:1]
            else:
                got = [s.url for s in w.server.wss][:1]
            n += 1
            if not got:
                out.append(('no_request', '%s client made no request for %r' % (impl, url), url, ep, tr))
            else:
                g = urllib.parse.urlparse(got[0])
                q = urllib.parse.parse_qs(g.query, keep_blank_values=True)
                scheme, netloc, path, cq = ref_url(url, ep, tr)
                problems = []
                if g.scheme != scheme:
                    problems.append('scheme %r want %r' % (g.scheme, scheme))
                if g.netloc != netloc:
                    problems.append('netloc %r want %r' % (g.netloc, netloc))
                if g.path != path:
                    problems.append('path %r want %r' % (g.path, path))
                if q.get('EIO') != ['4']:
                    problems.append('EIO %r' % q.get('EIO'))
                if q.get('transport') != [tr]:
                    problems.append('transport %r' % q.get('transport'))
                # the caller's parameters, decoded byte for byte (blank values and value-less flags included), are all there
                mine = sorted(kv for kv in urllib.parse.parse_qsl(g.query, keep_blank_values=True, encoding='latin-1')
                              if kv[0] not in ('EIO', 'transport', 't'))
                if mine != cq:
                    problems.append('caller query %r became %r' % (cq, mine))
                if problems:
                    out.append(('url_wrong', '%s client requested %r for connect(%r, engineio_path=%r, %s): %s'
                                % (impl, got[0], url, ep, tr, '; '.join(problems)), url, ep, tr))
            # refuse so that the attempt ends
            for p in w.server.pending_reqs():
                w.fail(p)
            for s in w.server.pending_ws():
                w.ws_decide(s, False)
            w.run()
        finally:
            w.teardown()
    return out, n


def _url_work(chunk):
    res = []
    for impl, cases in chunk:
        res.append((impl,) + check_urls(impl, cases))
    return res



class WriteFault(Conduct):
    """One write of the client fails (connection reset) in the middle of a flush: what is on the wire is a prefix of
    what the application sent - nothing is transmitted after the frame that failed - and the connection ends with
    exactly one 'transport error' disconnect, leaving the client clean.

    The server first stops reading, so that the application's sends pile up behind a blocked write and go out as one
    batch when it resumes; the write with index `fault` counted from the blocked one fails once."""
    def build(self):
        Conduct.build(self)
        p = self.params

        def live(s):
            return [x for x in s.world.server.wss if x.accepted and not x.closed_by_client]

        def arm(s):
            ws = live(s)[-1]
            ws.fail_send_at = ws.nwrite + p['fault']
            s.armed_at = len(ws.sent)
        rel = self.scripts[3]
        # arm once every send has been issued and the first write is blocked; then the server reads again
        rel.insert(0, core.Action('WS<-arm-fault', arm, lambda s: bool(live(s)) and live(s)[-1].stalled > 0 and
                                  len(s.send_calls) == p['nsend']))

    def finish(self):
        w = self.world
        p = self.params
        trig = 'write_fault'
        if not self.conn.done or self.conn.exc:
            self.flag('connect_failed', 'connect(): done=%s exc=%r' % (self.conn.done, self.conn.exc), trigger=trig)
            return
        w.run_until(w.now + 9.0)
        out = self.client_output()
        wire = [d for ch, t, d, k in out if t == 4]
        want = [bytes(x) if isinstance(x, (bytes, bytearray)) else x for x in SENDS[:p['nsend']]]
        norm = [bytes(x) if isinstance(x, (bytes, bytearray)) else x for x in wire]
        self._obs = {'wire': [repr(x)[:12] for x in norm]}
        if p['judge'] == 'c09':
            if norm != want[:len(norm)]:
                self.flag('wire_not_prefix', 'write #%d of the flush failed; the server received messages %r, the application sent %r: '
                          'not a prefix (something went out after the frame that failed)' % (p['fault'], norm, want), trigger=trig)
        else:
            disc = [e for e in w.events if e[0] == 'disconnect']
            self._obs['disc'] = [e[1] for e in disc]
            if len(disc) != 1 or disc[0][1] != 'transport error':
                self.flag('disconnect_count', 'a write of the client failed in the middle of a flush: disconnect events %r (want exactly one '
                          'transport error), state %r' % ([e[1] for e in disc], w.client.state), trigger=trig,
                          reasons='+'.join(str(e[1]) for e in disc))
            if w.client.state != 'disconnected' or w.client.sid is not None:
                self.flag('state_not_clean', 'state %r sid %r after the failed write' % (w.client.state, w.client.sid), trigger=trig)
            alive = w.tasks_alive()
            if alive:
                self.flag('tasks_alive', 'background tasks still running: %r' % alive, trigger=trig)
            errs = [e for e in w.loop_errors() if 'HandlerError' not in e.get('exception', '')]
            if errs:
                self.flag('background_exception', 'exception left a background task: %r' % errs[:2], trigger=trig)

    def observation(self):
        return dict(getattr(self, '_obs', {}), scenario=report.dumps(self.params, sort_keys=True))


def write_fault_params(judge):
    return [{'impl': impl, 'mode': mode, 'pushes': [], 'nsend': ns, 'stall': True, 'fault': f, 'judge': judge}
            for impl in ('sync', 'async') for mode in ('websocket', 'upgrade_ok') for ns in (3, 4) for f in range(0, ns)]

def param_list(ctx):
    ps = []
    names = list(PUSHES)
    seqs = [[a] for a in names] + [[a, b] for a in ('burst', 'pingx', 'ping_msg') for b in ('ping', 'burst', 'unknown', 'noop')]
    if not ctx.quick:
        seqs += [list(t) for t in itertools.product(['burst', 'pingx', 'noop', 'msg'], repeat=3)]
    for impl in ('sync', 'async'):
        for mode in ('polling', 'websocket', 'upgrade_ok'):
            for sq in seqs:
                for ns in ((0, 3) if ctx.quick else (0, 2, 4)):
                    ps.append({'impl': impl, 'mode': mode, 'pushes': sq, 'nsend': ns})
            ps.append({'impl': impl, 'mode': mode, 'pushes': [], 'nsend': 4})
        for mode in ('polling', 'upgrade_ok', 'upgrade_wrong', 'upgrade_refused'):
            for sq in ([], ['msg']):
                ps.append({'impl': impl, 'mode': mode, 'pushes': sq, 'nsend': 1, 'piggy': ['4welcome', '2hs']})
                ps.append({'impl': impl, 'mode': mode, 'pushes': sq, 'nsend': 0, 'piggy': ['4w1', '4w2']})
        # a healthy connection over several heartbeat cycles, each a little longer than ping_interval (the PONG takes time)
        for mode in ('polling', 'websocket', 'upgrade_ok'):
            for nb in ((4,) if ctx.quick else (3, 4, 6)):
                ps.append({'impl': impl, 'mode': mode, 'pushes': [], 'nsend': 0, 'beat': nb})
                ps.append({'impl': impl, 'mode': mode, 'pushes': ['msg'], 'nsend': 1, 'beat': nb})
        # connect() is called again while connected, between two sends and two PINGs
        for mode in ('polling', 'websocket', 'upgrade_ok'):
            ps.append({'impl': impl, 'mode': mode, 'pushes': ['pingx', 'ping_msg'], 'nsend': 3, 'connect_again': True})
        # the application sends from inside its connect handler (before connect() has returned)
        for mode in ('polling', 'websocket', 'upgrade_ok', 'upgrade_wrong'):
            for hk in (1, 3):
                ps.append({'impl': impl, 'mode': mode, 'pushes': [], 'nsend': 1, 'connect_sends': hk})
        # writes that block inside the socket (the server is not reading) while frames keep arriving
        for mode in ('websocket', 'upgrade_ok'):
            for sq in (['msg'], ['ping'], ['pingx', 'msg'], ['burst']):
                for ns in (1, 2):
                    ps.append({'impl': impl, 'mode': mode, 'pushes': sq, 'nsend': ns, 'stall': True})
        if impl == 'sync':
            for mode in ('upgrade_unreachable', 'upgrade_timeout'):
                for sq in ([], ['pingx', 'msg']):
                    ps.append({'impl': impl, 'mode': mode, 'pushes': sq, 'nsend': 3})
        for mode in ('upgrade_wrong', 'upgrade_silent', 'upgrade_refused'):
            for sq in ([], ['burst'], ['pingx', 'msg']):
                for ns in (0, 3):
                    ps.append({'impl': impl, 'mode': mode, 'pushes': sq, 'nsend': ns})
    return ps


def _short(choices):
    t = ''.join(map(str, choices))
    return t if len(t) <= 90 else t[:90] + '...(%d points)' % len(t)


def run(ctx):
    rep = report.Report('C09', 'model_checking')
    bound = 1 if ctx.quick else 2
    params = param_list(ctx)
    one = [q for q in params if q['pushes'] in (['burst'], ['pingx'], ['ping_msg']) and q['nsend'] == (3 if ctx.quick else 2)] + \
          [q for q in params if q['mode'] in ('upgrade_wrong', 'upgrade_refused') and q['pushes'] == ['burst'] and q['nsend'] == 3]
    if ctx.quick:
        st, viols, samples, gate = core.run_search(Conduct, params, 0, ctx.workers, ctx.seed)
        st2, viols2, samples2, gate2 = core.run_search(Conduct, one, 1, ctx.workers, ctx.seed)
    else:
        # all interleavings on the full (length <= 3) scenario set; one deviation on the single-push scenarios and the
        # piggy-backed handshakes; two deviations on the racing core (one burst against two sends, per transport)
        one += [q for q in params if q.get('piggy')]
        two = [q for q in params if q['pushes'] == ['burst'] and q['nsend'] == 2 and q['mode'] in ('polling', 'websocket')
               and q['impl'] in ('sync', 'async')][:4]
        st, viols, samples, gate = core.run_search(Conduct, params, 0, ctx.workers, ctx.seed)
        st1, viols1, _, _ = core.run_search(Conduct, one, 1, ctx.workers, ctx.seed)
        st.merge(st1)
        viols += viols1
        st2, viols2, samples2, gate2 = core.run_search(Conduct, two, 2, ctx.workers, ctx.seed)
    st.merge(st2)
    viols += viols2
    st3, viols3, _, _ = core.run_search(WriteFault, write_fault_params('c09'), 0, ctx.workers, ctx.seed)
    st.merge(st3)
    for v in viols3:
        v['params'] = dict(v['params'], _write_fault=True)
    viols += viols3
    for v in viols:
        pr = v['params']
        rep.add(report.Violation(
            dict({'impl': pr['impl'], 'kind': v['kind']}, **v['sig']),
            '[%s mode=%s pushes=%r nsend=%d] %s  (choices=%s)' % (pr['impl'], pr['mode'], pr['pushes'], pr['nsend'], v['text'], _short(v['choices'])),
            {'params': pr, 'choices': v['choices']}, weight=(v['dev'], len(v['choices']))))
    cases = list(url_cases())
    res = parallel.pmap_chunks(_url_work, [[(impl, part)] for impl in ('sync', 'async') for part in parallel.split(cases, 8)],
                               ctx.workers, ctx.seed)
    nurl = 0
    for chunk in res:
        for impl, out, n in chunk:
            nurl += n
            for kind, text, url, ep, tr in out:
                rep.add(report.Violation({'impl': impl, 'kind': kind, 'trigger': 'url'}, text,
                                         {'harness': 'url', 'impl': impl, 'case': [url, ep, tr]}, weight=(0, len(url))))
    rep.coverage = {
        'states': len(st.outcomes) + nurl, 'transitions': st.points + nurl, 'traces_validated_against_impl': st.executions + nurl,
        'samples': samples[:3] + [{'url': 'wss://[::1]:9/x/y?a=1&b=%20&c=', 'engineio_path': 'a/b', 'transport': 'polling'}],
        'evaluations': st.executions + nurl, 'distinct_nontrivial': len(st.outcomes) + nurl,
        'rule': 'server push sequences over %r (length <= %d) x application sends (text, bytes, JSON; 0..4) x mode {polling, websocket, '
                'upgrade with probe answered correctly / wrongly / not at all / socket refused} x {Client, AsyncClient}; pushes and sends '
                'are parallel scripts: all interleavings and <= %d deviation(s); every execution ends in server silence; sends issued from inside the connect handler; WebSocket scenarios in which the server stops reading, so that a send of the client blocks inside the socket while frames keep arriving, and later resumes; write-fault scenarios (sends piled up behind a blocked write go out as one batch and the k-th write of that flush fails once: the wire must be a prefix of what was sent). Plus the '
                'product of 4 schemes x 3 hosts x 3 paths x 3 queries x 3 endpoint settings x 2 transports (%d URLs per client).'
                % (list(PUSHES), 2 if ctx.quick else 3, bound, len(cases)),
        'exhaustive': True, 'bound_completed': bound, 'caps_hit': st.caps, 'scenarios': len(params),
        'executions_by_deviations': {str(k): v for k, v in sorted(st.by_dev.items())},
        'url_cases': nurl, 'determinism_gate': gate,
    }
    rep.assumptions = [
        'requests / websocket-client / aiohttp are contract-level fakes (DESIGN S6)',
        'message handlers run in the background on both clients: order is judged by dispatch order (handlers record at entry)',
        'silence bound: last server answer (or last poll issued) + pingInterval + pingTimeout (+5 s on polling)',
    ]
    return rep


def replay(ctx, payload):
    r = report.unbytes(payload['replay'])
    if r.get('harness') == 'url':
        out, n = check_urls(r['impl'], [tuple(r['case'])])
        for o in out:
            print('REPLAY VIOLATION:', o[1])
        return 1 if out else 0
    cls = WriteFault if r['params'].pop('_write_fault', False) else Conduct
    ex = core.execute(cls, r['params'], r['choices'], want_labels=True)
    for lab in ex.labels:
        print('  ', lab)
    print('observation:', ex.obs)
    for v in ex.violations:
        print('REPLAY VIOLATION:', v)
    return 1 if ex.violations else 0
