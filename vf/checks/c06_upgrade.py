"""C06 WebSocket upgrade completes only via the probe handshake; failure is
harmless.

History search: every sequence of up to 3 events a client can produce on the
upgrade socket (15-symbol alphabet incl. oversize, empty, binary, garbage and
peer-close), with 0-2 messages queued and with/without a poll pending, each
followed by a recovery suffix (late poll, second handshake, repeated upgrade),
on both real servers; plus a deviation-bounded schedule search (D<=1) of the
handshake against a concurrent poll and a concurrent send; plus transport
configuration cells. Oracle: handshake reference automaton + delivery ledger.
"""
import itertools

from vf import report
from vf.explore import core, parallel
from vf.models import codec
from vf.vworld import peer
from vf.checks.c04_dispatch import ref_dispatch, same_events

L = 20
EVENTS = ['2probe', '2', '2other', '3probe', '5', '5x', '4m', '6', '1', b'\x01\x02', '', 'x',
          '4' + 'x' * L, b'\x07' * (L + 1), 'CLOSE']


def is_over(ev):
    return ev != 'CLOSE' and len(ev) > L


def ref_handshake(events):
    """-> dict(pong: bool, upgraded: bool, fail_at: index or None, over: bool, rest: events after success)."""
    r = {'pong': False, 'upgraded': False, 'fail_at': None, 'over': False, 'rest': [], 'pending': False}
    if not events:
        r['pending'] = True
        return r
    e0 = events[0]
    if e0 != '2probe':
        r['fail_at'] = 0
        r['over'] = is_over(e0)
        return r
    r['pong'] = True
    if len(events) < 2:
        r['pending'] = True
        return r
    e1 = events[1]
    ok = False
    if e1 != 'CLOSE' and not is_over(e1) and isinstance(e1, str):
        try:
            ok = codec.ref_decode(e1)['type'] == 5
        except codec.Undecodable:
            ok = False
    if not ok:
        r['fail_at'] = 1
        r['over'] = is_over(e1)
        return r
    r['upgraded'] = True
    r['rest'] = events[2:]
    return r


def fire_event(w, s, ev):
    if ev == 'CLOSE':
        w.ws_close(s)
    else:
        w.ws_send(s, ev)


class Ledger:
    """Where each tagged message was seen."""
    def __init__(self):
        self.sent = []
        self.seen = []      # (tag, transport)

    def absorb_poll(self, g):
        if g is None or not g.done or g.status != 200:
            return []
        got = peer.decode_body(g.text())
        for t, d in got:
            if t == 4:
                self.seen.append((d, 'polling'))
        return got

    def absorb_ws(self, s, start=0):
        for f in s.frames[start:]:
            t, d = peer.decode_frame(f[2])
            if t == 4:
                self.seen.append((d, 'websocket'))
        return len(s.frames)

    def problems(self, require_all):
        tags = [t for t, _ in self.seen]
        out = []
        if len(tags) != len(set(tags)):
            out.append(('duplicate_delivery', 'messages seen %r' % (self.seen,)))
        order = [t for t in tags if t in self.sent]
        if order != [t for t in self.sent if t in order]:
            out.append(('reordered', 'sent %r seen %r' % (self.sent, self.seen)))
        if require_all and set(self.sent) - set(tags):
            out.append(('message_lost', 'sent %r but only %r delivered' % (self.sent, self.seen)))
        return out


def V(out, impl, kind, trigger, text, case):
    out.append(report.Violation({'impl': impl, 'kind': kind, 'trigger': trigger},
                                '[%s] %s  case=%s' % (impl, text, report.dumps(case, sort_keys=True)),
                                {'impl': impl, 'case': case}, weight=(0, len(case.get('events', [])))))


def run_dropped_only(impl, case, out):
    """The only upgrade attempt dies before the WebSocket accept: the session simply stays on polling."""
    k, with_poll = case['queued'], case['poll']
    w = peer.make_world(impl, server_kwargs=dict(max_http_buffer_size=L, ping_interval=5, ping_timeout=5, async_handlers=False))
    led = Ledger()
    try:
        sid = peer.sid_of(peer.open_polling(w))
        pending = peer.poll(w, sid) if with_poll else None
        w.ws(peer.WSQ + '&sid=' + sid, fail_accept=True)
        w.run()
        for i in range(k):
            led.sent.append('q%d' % i)
            w.call('send', sid, 'q%d' % i)
            w.run()
        led.absorb_poll(pending)
        for _ in range(k + 1):
            g = peer.poll(w, sid)
            if not g.done:
                break
            led.absorb_poll(g)
        tr = w.transport(sid) if sid in w.live_sids() else None
        if tr != 'polling':
            V(out, impl, 'failed_handshake_changed_transport', 'dropped_before_accept', 'transport() = %r' % (tr,), case)
        for kind, text in led.problems(True):
            V(out, impl, kind, 'dropped_before_accept', text, case)
        return 'dropped-only'
    finally:
        w.teardown()


def run_history(impl, case, out):
    if case.get('only_dropped'):
        return run_dropped_only(impl, case, out)
    if case.get('order'):
        return run_overlap(impl, case, out)
    events, k, with_poll = case['events'], case['queued'], case['poll']
    w = peer.make_world(impl, server_kwargs=dict(max_http_buffer_size=L, ping_interval=5, ping_timeout=5,
                                                 async_handlers=False))
    led = Ledger()
    try:
        sid = peer.sid_of(peer.open_polling(w))
        if sid is None:
            V(out, impl, 'setup_failed', 'setup', 'open failed', case)
            return None
        if case.get('pre') == 'dropped':
            # an earlier upgrade attempt whose socket was gone before the WebSocket handshake could be answered
            # (the driver fails before the Engine.IO handler runs): harmless, a later upgrade is still possible
            w.ws(peer.WSQ + '&sid=' + sid, fail_accept=True)
            w.run()
        if case.get('pre') in ('failed', 'hung_up'):
            # an earlier handshake on this session got as far as the probe and then failed; the client went back to
            # polling and drained what that attempt left behind
            s0 = peer.ws_upgrade(w, sid)
            w.ws_send(s0, '2probe')
            w.run()
            if case['pre'] == 'hung_up':
                w.ws_close(s0)            # the peer closed the socket after its probe was answered, before UPGRADE
            else:
                w.ws_send(s0, '4x')
            w.run()
            for _ in range(2):
                g0 = peer.poll(w, sid)
                if not g0.done:
                    w.call('send', sid, 'filler')
                    w.run()
        pending = peer.poll(w, sid) if with_poll else None
        s = peer.ws_upgrade(w, sid)
        if not s.accepted:
            V(out, impl, 'upgrade_socket_refused', 'setup', 'upgrade request of a polling session was not accepted (exc=%r)' % (s.exc,), case)
            return None
        for i in range(k):
            led.sent.append('q%d' % i)
            w.call('send', sid, 'q%d' % i)
            w.run()
        ref = ref_handshake(events)
        nmsg = len([e for e in w.events if e[0] == 'message'])
        mid_poll = None
        tr_after_two = None
        for i, ev in enumerate(events):
            fire_event(w, s, ev)
            w.run()
            if i == 0 and ref['pong'] and pending is not None and not pending.done:
                # the poll that was parked when the handshake began is released by the answered probe (with what was
                # queued, or a NOOP) - it is not left to compete with the socket
                V(out, impl, 'parked_poll_not_released', 'probe', 'the poll parked before the handshake is still pending after the probe was answered', case)
            if i == 1:
                tr_after_two = w.transport(sid)
            if i == 0 and ref['pong'] and len(events) > 1:
                # a poll that starts while the handshake is in progress gets only NOOP
                mid_poll = peer.poll(w, sid)
                got = led.absorb_poll(mid_poll)
                if not mid_poll.done or [t for t, d in got] != [6]:
                    V(out, impl, 'mid_handshake_poll_not_noop', 'poll_between_probe_and_upgrade',
                      'poll started after the probe returned %r (done=%s)' % (got, mid_poll.done), case)
        trig = 'ev%d=%s' % (ref['fail_at'], 'oversize' if ref['over'] else
                            ('close' if events[ref['fail_at']] == 'CLOSE' else repr(events[ref['fail_at']])[:12])) \
            if ref['fail_at'] is not None else 'handshake'
        frames = peer.ws_frames(s)
        pongs = frames.count('3probe')
        if pongs != (1 if ref['pong'] else 0):
            V(out, impl, 'probe_answer_wrong', trig, '%d PONG probe frames, first event %r' % (pongs, events[:1]), case)
        tr = w.transport(sid)
        msgs = [e[2] for e in w.events if e[0] == 'message'][nmsg:]
        if ref['upgraded']:
            rd = ref_dispatch(ref['rest'], 'websocket')
            if tr_after_two != 'websocket':
                V(out, impl, 'correct_handshake_not_upgraded', trig, 'transport() = %r after probe + UPGRADE' % (tr_after_two,), case)
                return None
            if any(is_over(e) for e in ref['rest']):
                return 'upgraded+oversize'      # C14 judges what an oversize steady-state frame does
            if rd['stopped_at'] is None and not same_events(msgs, rd['events'], True):
                V(out, impl, 'post_upgrade_dispatch', 'steady', 'message events %r, reference %r' % (msgs, rd['events']), case)
            if rd['end'] == 'client' or rd['stopped_at'] is not None:
                led.absorb_poll(pending)
                led.absorb_ws(s)
                for kind, text in led.problems(False):
                    V(out, impl, kind, trig, text, case)
                return 'upgraded+ended'
            # recovery suffix after success
            led.sent.append('after')
            w.call('send', sid, 'after')
            w.run()
            s2 = peer.ws_upgrade(w, sid)
            w.ws_send(s2, '2probe')
            w.run()
            if '3probe' in peer.ws_frames(s2) or w.transport(sid) != 'websocket':
                V(out, impl, 'second_upgrade_not_refused', 'repeat_upgrade', 'a further upgrade attempt was entertained: frames %r' % peer.ws_frames(s2), case)
            led.sent.append('after2')
            w.call('send', sid, 'after2')
            w.run()
            led.absorb_poll(pending)
            led.absorb_ws(s)
            if any(codec.ref_decode(f)['type'] == 4 for f in peer.ws_frames(s2) if isinstance(f, str) and f):
                V(out, impl, 'message_on_refused_socket', 'repeat_upgrade', 'frames on the refused socket: %r' % peer.ws_frames(s2), case)
            for kind, text in led.problems(True):
                V(out, impl, kind, 'after_success', text, case)
            if any(tp == 'polling' for tg, tp in led.seen if tg in ('after', 'after2')):
                V(out, impl, 'wrong_transport', 'after_success', 'message sent after the upgrade travelled on polling: %r' % led.seen, case)
            return 'upgraded'
        if ref['pending']:
            return 'pending'
        # failed handshake
        if msgs:
            V(out, impl, 'handshake_frame_dispatched', trig, 'message events %r from handshake frames' % (msgs,), case)
        if tr == 'websocket':
            V(out, impl, 'upgraded_without_handshake', trig, 'transport() = websocket after events %r' % (events,), case)
            return None
        alive = sid in w.live_sids()
        if not alive:
            disc = [e for e in w.events if e[0] == 'disconnect']
            if ref['over'] and len(disc) == 1:
                return 'failed+ended'        # S4: oversize may end the session cleanly
            V(out, impl, 'failed_handshake_killed_session', trig, 'session dead after a failed handshake (disconnects %r)' % [d[2] for d in disc], case)
            return None
        led.sent.append('after')
        w.call('send', sid, 'after')
        w.run()
        led.absorb_poll(pending)
        g = peer.poll(w, sid)
        led.absorb_poll(g)
        if not g.done:
            # nothing queued is legitimate only if everything was already delivered
            pass
        g2 = None
        if set(led.sent) - {t for t, _ in led.seen}:
            g2 = peer.poll(w, sid)
            led.absorb_poll(g2)
        for kind, text in led.problems(True):
            V(out, impl, 'queued_not_retrievable_after_failure' if kind == 'message_lost' else kind, trig,
              text + ' (polls: %r %r)' % (g.body, g2.body if g2 else None), case)
        if any(tp == 'websocket' for _, tp in led.seen):
            V(out, impl, 'wrong_transport', trig, 'message delivered on the failed upgrade socket: %r' % led.seen, case)
        # a later upgrade must still be possible
        s3 = peer.do_upgrade(w, sid)
        if w.transport(sid) != 'websocket':
            V(out, impl, 'later_upgrade_impossible', trig, 'second handshake after a failure did not upgrade: accepted=%s frames=%r exc=%r'
              % (s3.accepted, peer.ws_frames(s3), s3.exc), case)
            return None
        led.sent.append('final')
        w.call('send', sid, 'final')
        w.run()
        n0 = len(led.seen)
        led.absorb_ws(s3)
        if ('final', 'websocket') not in led.seen[n0:]:
            V(out, impl, 'message_lost', 'after_recovery', 'message after the second handshake not on the new socket: %r' % led.seen, case)
        return 'failed+recovered'
    finally:
        w.teardown()


def run_overlap(impl, case, out):
    """Two upgrade sockets opened on one polling session before either handshake has finished. Socket A runs the correct
    handshake; socket B sends the frames of the case; every interleaving of the two frame sequences. Whatever B does, a
    handshake completed on A holds: the session is on WebSocket, on A."""
    b_events, order = case['b'], case['order']
    w = peer.make_world(impl, server_kwargs=dict(max_http_buffer_size=L, ping_interval=5, ping_timeout=5, async_handlers=False))
    led = Ledger()
    try:
        sid = peer.sid_of(peer.open_polling(w))
        a = peer.ws_upgrade(w, sid)
        b = peer.ws_upgrade(w, sid)
        if not a.accepted:
            V(out, impl, 'upgrade_socket_refused', 'setup', 'first upgrade socket refused', case)
            return None
        if not b.accepted:
            return 'second-refused'        # refusing the overlapping attempt outright is fine
        qa, qb = ['2probe', '5'], list(b_events)
        a_done = []
        for who in order:
            sock, q = (a, qa) if who == 'A' else (b, qb)
            if not q:
                continue
            ev = q.pop(0)
            if sock.server_closed or sock.done:
                continue
            if who == 'A' and ev == '5' and '3probe' not in peer.ws_frames(a):
                continue                    # A only sends UPGRADE after its probe was answered
            fire_event(w, sock, ev)
            w.run()
            if who == 'A':
                a_done.append(ev)
        b_correct = b_events[:2] == ['2probe', '5']
        trig = 'overlapping_sockets'
        led.sent.append('after')
        w.call('send', sid, 'after')
        w.run()
        g = peer.poll(w, sid) if w.transport(sid) == 'polling' and sid in w.live_sids() else None
        led.absorb_poll(g)
        g2 = None
        if g is not None and g.done and not [x for x in led.seen if x[0] == 'after']:
            g2 = peer.poll(w, sid)
            led.absorb_poll(g2)
        led.absorb_ws(a)
        led.absorb_ws(b)
        if sid not in w.live_sids():
            if 'CLOSE' in b_events or '1' in b_events:
                return 'ended'
            V(out, impl, 'session_lost', trig, 'the session ended (B sent %r)' % (b_events,), case)
            return None
        if a_done == ['2probe', '5'] and not b_correct:
            if w.transport(sid) != 'websocket':
                V(out, impl, 'established_websocket_disturbed', trig,
                  'socket A completed probe + UPGRADE, socket B sent %r (order %s): transport() = %r'
                  % (b_events, ''.join(order), w.transport(sid)), case)
            elif ('after', 'websocket') not in led.seen or 'after' not in [f[2][1:] for f in a.frames if isinstance(f[2], str)]:
                V(out, impl, 'established_websocket_disturbed', trig,
                  'socket A completed probe + UPGRADE, socket B sent %r (order %s): a later message was seen %r, not on A'
                  % (b_events, ''.join(order), led.seen), case)
        for kind, text in led.problems(True):
            V(out, impl, kind, trig, text + ' (B sent %r, order %s)' % (b_events, ''.join(order)), case)
        return 'overlap'
    finally:
        w.teardown()


def run_config_cells(impl, out):
    n = 0
    # polling-only server: the WebSocket transport is never used
    w = peer.make_world(impl, server_kwargs=dict(transports=['polling']))
    try:
        sid = peer.sid_of(peer.open_polling(w))
        s = peer.ws_upgrade(w, sid)
        w.ws_send(s, '2probe')
        w.run()
        n += 1
        case = {'cfg': 'polling_only', 'events': ['2probe']}
        if s.accepted or '3probe' in peer.ws_frames(s) or w.transport(sid) != 'polling':
            V(out, impl, 'disallowed_transport_used', 'transports=polling', 'upgrade entertained: accepted=%s frames=%r' % (s.accepted, peer.ws_frames(s)), case)
        s2 = w.ws('EIO=4&transport=polling&sid=' + sid)
        w.run()
        w.ws_send(s2, '2probe')
        w.run()
        n += 1
        if s2.accepted or '3probe' in peer.ws_frames(s2):
            V(out, impl, 'disallowed_transport_used', 'transports=polling', 'upgrade via transport=polling + Upgrade headers entertained', case)
        s3 = peer.ws_open(w)
        n += 1
        if s3.accepted:
            V(out, impl, 'disallowed_transport_used', 'transports=polling', 'WebSocket open accepted', case)
    finally:
        w.teardown()
    # the same for every shape of the upgrade request (transport value x Upgrade / Connection header spelling x sid or not),
    # each followed by the complete handshake a client would attempt
    for tq in ('websocket', 'polling'):
        for up in ('websocket', 'WebSocket', 'WEBSOCKET', 'Websocket', 'websocket, h2c', 'h2c, websocket', 'websocket,websocket'):
            for conn in ('Upgrade', 'upgrade', 'keep-alive, Upgrade'):
                for with_sid in (True, False):
                    w = peer.make_world(impl, server_kwargs=dict(transports=['polling']))
                    try:
                        sid = peer.sid_of(peer.open_polling(w))
                        w.call('send', sid, 'queued')
                        w.run()
                        before = len(w.table_sids())
                        s = w.ws('EIO=4&transport=%s%s' % (tq, '&sid=' + sid if with_sid else ''), headers={'Upgrade': up, 'Connection': conn})
                        w.run()
                        for f in ('2probe', '5'):
                            if s.accepted and not s.server_closed:
                                w.ws_send(s, f)
                                w.run()
                        n += 1
                        case = {'cfg': 'polling_only', 'events': ['2probe', '5'], 'transport_query': tq, 'upgrade': up, 'connection': conn, 'sid': with_sid}
                        fr = peer.ws_frames(s)
                        grew = len(w.table_sids()) != before and not (tq == 'polling' and not with_sid)      # a polling open is legitimate
                        # (an HTTP 200 answered on a websocket scope shows as an accepted but silent socket in the ASGI world: not a use of the transport)
                        if (s.accepted and tq == 'websocket') or fr or w.transport(sid) != 'polling' or grew or \
                                any(w.transport(x) != 'polling' for x in w.live_sids()):
                            V(out, impl, 'disallowed_transport_used', 'transports=polling',
                              'request transport=%s Upgrade: %s Connection: %s %s: accepted=%s, frames written to the socket %r, transport() = %r, '
                              'sessions %d -> %d' % (tq, up, conn, 'with sid' if with_sid else 'without sid', s.accepted, fr,
                                                     w.transport(sid), before, len(w.table_sids())), case)
                    finally:
                        w.teardown()
    # a server that allows the upgrade: the handshake completes whatever the spelling of the two upgrade headers
    for up, conn in (('websocket', 'keep-alive, Upgrade'), ('WebSocket', 'Upgrade, keep-alive'), ('websocket', 'upgrade')):
        w = peer.make_world(impl)
        try:
            sid = peer.sid_of(peer.open_polling(w))
            w.call('send', sid, 'queued')
            w.run()
            s = w.ws('EIO=4&transport=websocket&sid=' + sid, headers={'Upgrade': up, 'Connection': conn})
            w.run()
            for f in ('2probe', '5'):
                if s.accepted and not s.server_closed:
                    w.ws_send(s, f)
                    w.run()
            n += 1
            case = {'cfg': 'default_headers', 'events': ['2probe', '5'], 'upgrade': up, 'connection': conn}
            fr = peer.ws_frames(s)
            if w.transport(sid) != 'websocket' or '3probe' not in fr or '4queued' not in fr:
                V(out, impl, 'correct_handshake_not_upgraded', 'header_spelling',
                  'upgrade request with Upgrade: %s, Connection: %s and a correct handshake: frames %r, transport() = %r' % (up, conn, fr, w.transport(sid)), case)
        finally:
            w.teardown()
    # websocket-only server
    w = peer.make_world(impl, server_kwargs=dict(transports=['websocket']))
    try:
        case = {'cfg': 'websocket_only', 'events': []}
        r = peer.open_polling(w)
        n += 1
        if r.status != 400 or w.table_sids():
            V(out, impl, 'disallowed_transport_used', 'transports=websocket', 'polling open answered %r, sessions %r' % (r.status, w.table_sids()), case)
        s = peer.ws_open(w)
        n += 1
        fr = peer.ws_frames(s)
        sid = ([e[1] for e in w.events if e[0] == 'connect'] or [None])[-1]
        if not fr or not isinstance(fr[0], str) or not fr[0].startswith('0') or w.transport(sid) != 'websocket':
            V(out, impl, 'ws_open_not_websocket', 'transports=websocket', 'frames %r transport %r' % (fr, w.transport(sid)), case)
    finally:
        w.teardown()
    # ... and OPEN is the first frame even when the connect handler already sends to the new session
    from vf.checks.c11_open import SendingConnect
    w = peer.make_world(impl, behaviour=SendingConnect(True))
    try:
        s = peer.ws_open(w)
        n += 1
        fr = peer.ws_frames(s)
        if not fr or not isinstance(fr[0], str) or not fr[0].startswith('0') or fr[1:3] != ['4greeting-1', '4greeting-2']:
            V(out, impl, 'ws_open_not_websocket', 'connect_handler_sends', 'frames on a directly opened WebSocket whose connect handler sends two '
              'greetings: %r (want OPEN first, then the greetings)' % (fr[:4],), {'cfg': 'sending_connect', 'events': []})
    finally:
        w.teardown()
    # allow_upgrades=False only governs advertisement; a WebSocket open is in WebSocket mode at once
    w = peer.make_world(impl, server_kwargs=dict(allow_upgrades=False))
    try:
        s = peer.ws_open(w)
        n += 1
        sid = ([e[1] for e in w.events if e[0] == 'connect'] or [None])[-1]
        if w.transport(sid) != 'websocket':
            V(out, impl, 'ws_open_not_websocket', 'allow_upgrades=False', 'transport %r' % w.transport(sid), {'cfg': 'no_upgrades', 'events': []})
    finally:
        w.teardown()
    return n


# ---------------------------------------------------- schedule search (D<=1)

class OpenRace(core.Scenario):
    """A WebSocket opened without prior polling, observed by a client that acts the moment it has read the OPEN packet: it
    polls with the sid it was just given. From its OPEN packet on the session is in WebSocket mode, so that poll is refused.
    The threaded server is explored with a scheduling point before every line of the WebSocket handler."""
    horizon = 1.0

    def build(self):
        p = self.params
        extra = {'trace_funcs': ['_websocket_handler']} if p['impl'] == 'sync' else {}
        w = self.world = peer.make_world(p['impl'], server_kwargs=dict(ping_interval=5, ping_timeout=5, async_handlers=False), **extra)
        self.ws = None
        self.poll = None
        self.tr_at_open = None

        def do_open(sc):
            sc.ws = sc.world.ws(peer.WSQ)

        def saw_open(sc):
            return sc.ws is not None and any(isinstance(f[2], str) and f[2].startswith('0') for f in sc.ws.frames)

        def do_poll(sc):
            import json as _json
            sid = _json.loads([f[2] for f in sc.ws.frames if isinstance(f[2], str) and f[2].startswith('0')][0][1:])['sid']
            sc.sid = sid
            sc.tr_at_open = sc.world.transport(sid) if sid in sc.world.live_sids() else None
            sc.poll = sc.world.http('GET', peer.BASEQ + '&sid=' + sid)
        self.scripts = [[core.Action('ws_open', do_open)], [core.Action('poll_on_open', do_poll, saw_open)]]

    def finish(self):
        w = self.world
        w.run_until(self.horizon)
        if self.poll is None:
            self.flag('ws_open_not_websocket', 'no OPEN packet was ever written to the directly opened WebSocket', trigger='open_race')
            return
        if self.tr_at_open != 'websocket':
            self.flag('ws_open_not_websocket', 'the client has read the OPEN packet of a directly opened WebSocket; transport(sid) = %r'
                      % (self.tr_at_open,), trigger='open_race')
        if not self.poll.done or self.poll.status != 400:
            self.flag('ws_open_not_websocket', 'a polling GET sent on receipt of the OPEN packet of a directly opened WebSocket was not refused: '
                      'done=%s status=%r' % (self.poll.done, self.poll.status), trigger='open_race')

    def observation(self):
        return {'tr': self.tr_at_open, 'poll': None if self.poll is None else (self.poll.done, self.poll.status)}


class HandshakeRace(core.Scenario):
    """The handshake events, one poll and one send as three parallel scripts."""
    horizon = 2.0

    def build(self):
        p = self.params
        self.impl = p['impl']
        w = self.world = peer.make_world(self.impl, server_kwargs=dict(max_http_buffer_size=L, ping_interval=5, ping_timeout=5,
                                                                       async_handlers=False))
        self.led = Ledger()
        self.sid = peer.sid_of(peer.open_polling(w))
        self.s = peer.ws_upgrade(w, self.sid)
        self.polls = []
        self.accept_step = w.nstep
        evs = p['events']

        def mk_ev(ev):
            return core.Action('ws:' + (ev if isinstance(ev, str) else 'bin')[:8], lambda sc: fire_event(sc.world, sc.s, ev))

        def do_poll(sc):
            sc.polls.append(peer.poll(sc.world, sc.sid, run=False))

        def do_send(sc):
            sc.led.sent.append('m')
            sc.world.call('send', sc.sid, 'm')
        self.scripts = [[mk_ev(e) for e in evs], [core.Action('poll', do_poll)], [core.Action('send', do_send)]]

    def finish(self):
        w = self.world
        p = self.params
        ref = ref_handshake(p['events'])
        # drain: keep reading on whatever transport is current
        for g in self.polls:
            self.led.absorb_poll(g)
        tr = w.transport(self.sid)
        ended_after = ref['upgraded'] and any(e in ('1', 'CLOSE') or is_over(e) for e in ref['rest'])
        # a peer close injected before the server has written the probe answer makes that write fail: with an early
        # CLOSE both "upgraded then ended" and "handshake aborted" are legitimate outcomes
        early_close = ref['upgraded'] and 'CLOSE' in ref['rest'] and tr in ('polling', None)
        if ref['upgraded'] != (tr == 'websocket') and not ref['pending'] and not (ended_after and tr is None) and not early_close:
            self.flag('handshake_outcome_wrong', 'transport() = %r, reference upgraded=%s' % (tr, ref['upgraded']), trigger='race')
        if tr == 'polling' and self.sid in w.live_sids():
            for _ in range(3):
                g = peer.poll(w, self.sid)
                self.led.absorb_poll(g)
                if set(self.led.sent) <= {t for t, _ in self.led.seen}:
                    break
                if not g.done:
                    break
        self.led.absorb_ws(self.s)
        alive = self.sid in w.live_sids()
        if ref['pending'] and tr == 'polling':
            req_all = False      # handshake still in progress: messages are legitimately held
        else:
            req_all = alive
        for kind, text in self.led.problems(req_all):
            self.flag(kind, text, trigger='race')
        for g in self.polls:
            if g.done and g.status == 200 and g.step_start > self.accept_step and ref['pong'] and not ref['upgraded'] and False:
                pass

    def observation(self):
        return {'seen': self.led.seen, 'transport': self.world.transport(self.sid),
                'polls': [(g.done, g.status, g.body) for g in self.polls]}


def run_neighbour(impl, case, out):
    """Another session of the same server is on WebSocket and its peer has stopped reading (a write to it is parked inside
    the socket): a second session's handshake - upgrade or direct open - completes all the same, and its messages flow."""
    w = peer.make_world(impl)
    try:
        A = peer.sid_of(peer.open_polling(w))
        wa = peer.do_upgrade(w, A)
        if w.transport(A) != 'websocket':
            V(out, impl, 'correct_handshake_not_upgraded', 'neighbour', 'the first session did not upgrade', case)
            return 'bad'
        wa.stall_send = True
        w.call('send', A, 'to-A')
        w.run()
        if case['neighbour'] == 'upgrade':
            B = peer.sid_of(peer.open_polling(w))
            wb = peer.do_upgrade(w, B)
            if B is None or w.transport(B) != 'websocket' or '3probe' not in peer.ws_frames(wb):
                V(out, impl, 'correct_handshake_not_upgraded', 'neighbour_backpressure',
                  'session B sent a correct probe and UPGRADE while a write to session A was parked (its peer is not reading): frames to B %r, '
                  'transport(B) = %r' % (peer.ws_frames(wb), None if B is None else w.transport(B)), case)
                return 'bad'
        else:
            wb = peer.ws_open(w)
            B = [e[1] for e in w.events if e[0] == 'connect'][-1] if wb.accepted else None
            if B is None or not [f for f in peer.ws_frames(wb) if isinstance(f, str) and f.startswith('0')]:
                V(out, impl, 'ws_open_not_websocket', 'neighbour_backpressure',
                  'a WebSocket open while a write to session A was parked got frames %r' % (peer.ws_frames(wb),), case)
                return 'bad'
        w.call('send', B, 'to-B')
        w.run()
        if '4to-B' not in peer.ws_frames(wb):
            V(out, impl, 'established_websocket_disturbed', 'neighbour_backpressure',
              'a message sent to session B while a write to session A was parked did not arrive: frames to B %r' % (peer.ws_frames(wb),), case)
        w.ws_release_send(wa)
        w.run()
        if '4to-A' not in peer.ws_frames(wa):
            V(out, impl, 'established_websocket_disturbed', 'neighbour_backpressure',
              'the parked message never reached session A once its peer read again: %r' % (peer.ws_frames(wa),), case)
        return 'neighbour'
    finally:
        w.teardown()


def _work(chunk):
    out = []
    outcomes = {}
    n = 0
    for what, impl, case in chunk:
        try:
            if what == 'hist' and 'neighbour' in case:
                o = run_neighbour(impl, case, out)
                outcomes[o] = outcomes.get(o, 0) + 1
                n += 1
            elif what == 'hist':
                o = run_history(impl, case, out)
                outcomes[o] = outcomes.get(o, 0) + 1
                n += 1
            else:
                n += run_config_cells(impl, out)
        except report.Livelock as e:
            out.append(report.livelock_violation(impl, e, {'impl': impl, 'case': case or {'cfg': 'cells'}}))
    return [v.to_json() for v in out[:300]], n, outcomes, len(out)


def _short(choices):
    t = ''.join(map(str, choices))
    return t if len(t) <= 90 else t[:90] + '...(%d points)' % len(t)


def run(ctx):
    rep = report.Report('C06', 'model_checking')
    seqs = [[]]
    for k in (1, 2):
        seqs += [list(t) for t in itertools.product(EVENTS, repeat=k)]
    if ctx.quick:
        seqs += [['2probe'] + list(t) for t in itertools.product(EVENTS, repeat=2)]
        first = EVENTS[1 + ctx.seed % (len(EVENTS) - 1)]
        seqs += [[first] + list(t) for t in itertools.product(EVENTS, repeat=2)]
    else:
        seqs += [list(t) for t in itertools.product(EVENTS, repeat=3)]
    jobs = []
    for impl in ('sync', 'async'):
        for sq in seqs:
            for k in (0, 1, 2):
                for poll in (False, True):
                    jobs.append(('hist', impl, {'events': sq, 'queued': k, 'poll': poll}))
                    if len(sq) <= 2:
                        jobs.append(('hist', impl, {'events': sq, 'queued': k, 'poll': poll, 'pre': 'dropped'}))
                        jobs.append(('hist', impl, {'events': sq, 'queued': k, 'poll': poll, 'pre': 'failed'}))
                        if len(sq) <= 1 or sq[0] == '2probe':
                            jobs.append(('hist', impl, {'events': sq, 'queued': k, 'poll': poll, 'pre': 'hung_up'}))
        for k in (0, 1, 2, 3):
            for poll in (False, True):
                jobs.append(('hist', impl, {'events': [], 'queued': k, 'poll': poll, 'only_dropped': True}))
        b_alpha = ['2probe', '5', '4x', '2', 'CLOSE', '']
        b_seqs = [[e] for e in b_alpha] + [list(t) for t in itertools.product(b_alpha, repeat=2)]
        for bs in b_seqs:
            for order in sorted(set(itertools.permutations(['A', 'A'] + ['B'] * len(bs)))):
                jobs.append(('hist', impl, {'events': [], 'queued': 0, 'poll': False, 'b': bs, 'order': list(order)}))
        for nb in ('upgrade', 'ws_open'):
            jobs.append(('hist', impl, {'neighbour': nb}))
        jobs.append(('cfg', impl, None))
    res = parallel.pmap_chunks(_work, parallel.split(jobs, ctx.workers * 6), ctx.workers, ctx.seed, maxtasks=6)
    n = 0
    nv = 0
    outcomes = {}
    for vs, k, oc, m in res:
        n += k
        nv += m
        for v in vs:
            rep.add(report.Violation.from_json(v))
        for a, b in oc.items():
            outcomes[str(a)] = outcomes.get(str(a), 0) + b
    # schedule search
    race_seqs = [[e] for e in EVENTS] + [['2probe', e] for e in EVENTS]
    if not ctx.quick:
        race_seqs += [['2probe', '5', e] for e in ('4m', '1', 'CLOSE')]
    params = [{'impl': impl, 'events': sq, '_free_switch': not ctx.quick} for impl in ('sync', 'async') for sq in race_seqs]
    bound = 1 if ctx.quick else 2
    st, viols, samples, gate = core.run_search(HandshakeRace, params, bound, ctx.workers, ctx.seed)
    st_o, viols_o, _, _ = core.run_search(OpenRace, [{'impl': 'sync', '_free_switch': True}, {'impl': 'async', '_free_switch': True}],
                                          2, ctx.workers, ctx.seed)
    st.merge(st_o)
    for v in viols_o:
        rep.add(report.Violation(
            dict({'impl': v['params']['impl'], 'kind': v['kind']}, **v['sig']),
            '[%s open race choices=%s] %s' % (v['params']['impl'], _short(v['choices']), v['text']),
            {'harness': 'open_race', 'params': v['params'], 'choices': v['choices']}, weight=(v['dev'], len(v['choices']))))
    for v in viols:
        rep.add(report.Violation(
            dict({'impl': v['params']['impl'], 'kind': v['kind']}, **v['sig']),
            '[%s race events=%r choices=%s] %s' % (v['params']['impl'], v['params']['events'], _short(v['choices']), v['text']),
            {'harness': 'race', 'params': v['params'], 'choices': v['choices']}, weight=(v['dev'], len(v['choices']))))
    rep.coverage = {
        'states': n + len(st.outcomes), 'transitions': n * 8 + st.points, 'traces_validated_against_impl': n + st.executions,
        'samples': [{'events': ['2probe', '', '5'], 'queued': 2, 'poll': True}] + samples[:2],
        'evaluations': n + st.executions, 'distinct_nontrivial': n + st.executions,
        'rule': 'history search: every event sequence of length <= 2 over %d handshake events%s x queued messages {0,1,2} x pending poll '
                '{no,yes} (sequences of length <= 2 also after an earlier upgrade attempt whose socket was gone before the WebSocket accept, and after one that failed - a wrong frame, or the peer hanging up - right after its probe), each with its recovery suffix, x {Server, AsyncServer}; a handshake (upgrade / direct open) of a second session while a write to a first, upgraded session is parked inside its socket; transport configuration cells; schedule search: '
                'every 1-event and probe+1-event handshake raced against one poll and one send, all interleavings of the three '
                'scripts at quiescence and up to %d deviation(s) (early injection / preemption). states = histories + distinct '
                'race outcomes; transitions = environment steps (8 per history, estimated) + decision points of the race executions.'
                % (len(EVENTS), ' plus length 3 starting with the probe or with one seed-chosen event' if ctx.quick else ' and <= 3', bound),
        'exhaustive': True, 'bound_completed': bound,
        'history_outcomes': outcomes, 'histories': n,
        'race_executions': st.executions, 'race_by_deviations': {str(k): v for k, v in sorted(st.by_dev.items())},
        'race_distinct_outcomes': len(st.outcomes), 'race_max_points': st.max_points,
        'determinism_gate': gate, 'violating_cases_total': nv + len(viols), 'caps_hit': st.caps,
    }
    rep.assumptions = [
        'an oversize handshake frame may end the session cleanly or leave a working polling session (DESIGN S4)',
        'allow_upgrades=False governs the advertisement only; a repeated upgrade may be refused in any form as long as the established socket keeps working',
        'computation takes zero virtual time; the threaded WebSocket driver is a contract-level fake',
    ]
    return rep


def replay(ctx, payload):
    r = report.unbytes(payload['replay'])
    if r.get('harness') in ('race', 'open_race'):
        ex = core.execute(HandshakeRace if r['harness'] == 'race' else OpenRace, r['params'], r['choices'], want_labels=True)
        for lab in ex.labels:
            print('  ', lab)
        print('observation:', ex.obs)
        for v in ex.violations:
            print('REPLAY VIOLATION:', v)
        return 1 if ex.violations else 0
    out = []
    if 'cfg' in r['case']:
        run_config_cells(r['impl'], out)
    elif 'neighbour' in r['case']:
        print('outcome:', run_neighbour(r['impl'], r['case'], out))
    else:
        print('outcome:', run_history(r['impl'], r['case'], out))
    for v in out:
        print('REPLAY VIOLATION:', v.text)
    return 1 if out else 0
