"""C20 Gateway middleware routes by path only and static files stay inside
their roots; ASGI lifespan per protocol.

Bounded-exhaustive enumeration of request paths x static mappings x endpoint
settings x wrapped-app presence for the real WSGIApp and ASGIApp over a real
scratch tree, against a routing reference; exhaustive lifespan event
sequences up to a length bound.
"""
import itertools
import os
import shutil
import tempfile

from vf import report
from vf.explore import parallel

SEGS = ['engine.io', 'engine.iox', 'static', '..', '.', '', 'index.html',
        'secret.txt', '%2e%2e', 'sub', 'file.css', 'root-private']
UNCLEAN = {'..', '.', '', '%2e%2e'}
CTYPES = {'css': 'text/css', 'gif': 'image/gif', 'html': 'text/html',
          'jpg': 'image/jpeg', 'js': 'application/javascript',
          'json': 'application/json', 'png': 'image/png', 'txt': 'text/plain'}
ENDPOINTS = ['engine.io', '/engine.io/', 'static/sub']
# the other spellings of the same endpoints (leading / trailing slash only): tried on every path of <= 2 segments
EXTRA_ENDPOINTS = ['/engine.io', 'engine.io/', '/static/sub', 'static/sub/']


# ------------------------------------------------------------ scratch tree

FILES = ['root/index.html', 'root/file.css', 'root/image.gif', 'root/noext',
         'root/secret.txt.bak', 'root/sub/index.html', 'root/sub/file.css',
         'root/sub/image.gif', 'root/sub/deep/x.txt', 'root/engine.io/index.html',
         'root/static/file.css',
         'single.html', 'secret.txt', 'other/index.html', 'other/secret.txt',
         'root-private/secret.txt', 'root-private/index.html', 'rootx',
         'index.html', 'file.css']


def make_tree():
    # the scratch tree is created under the system temp dir and removed by the caller
    top = tempfile.mkdtemp(prefix='vf-c20-')
    base = os.path.join(top, 'jail')
    os.makedirs(base)
    # the secret lives beside and above every mapped root
    for rel in FILES:
        p = os.path.join(base, rel)
        os.makedirs(os.path.dirname(p), exist_ok=True)
        with open(p, 'wb') as f:
            f.write(('CONTENT-OF:' + rel).encode())
    with open(os.path.join(top, 'secret.txt'), 'wb') as f:
        f.write(b'CONTENT-OF:../secret.txt')
    return top, base


def mappings(base):
    r = os.path.join(base, 'root')
    single = os.path.join(base, 'single.html')
    return {
        'dir': {'/static': r},
        'dir_slash_both': {'/static/': r + '/'},
        'dir_slash_value': {'/static': r + '/'},
        'dir_slash_key': {'/static/': r},
        'files': {'/': single, '/static/file.css': os.path.join(r, 'file.css'),
                  '/index.html': {'filename': single, 'content_type': 'text/x-one'}},
        'default_override': {'/static': r, '': 'image.gif'},
        'explicit_types': {'/static': {'filename': r, 'content_type': 'text/x-custom'},
                           '/sub': {'filename': os.path.join(r, 'sub')},
                           '': {'filename': 'image.gif', 'content_type': 'image/x-custom'}},
        'rootdir': {'/': r},
    }


# --------------------------------------------------------------- reference

def norm_endpoint(ep):
    return '/' + ep.strip('/') + '/'


def ref_static(path, mapping):
    """Reference lookup for a *clean* path: returns (filename, ctype) of the
    file the mapping designates, or None when no rule matches."""
    def rule(key):
        v = mapping[key]
        if isinstance(v, str):
            return v, None
        return v['filename'], v.get('content_type')
    keys = {k for k in mapping if k != ''}
    chosen = None
    rest = ''
    if path in keys:
        chosen, rest = path, ''
    else:
        # longest proper prefix at a segment boundary
        parts = path.split('/')
        for i in range(len(parts) - 1, 0, -1):
            prefix = '/'.join(parts[:i])
            if prefix in keys:
                chosen = prefix
            elif prefix + '/' in keys:
                chosen = prefix + '/'
            else:
                continue
            rest = '/'.join(parts[i:])
            break
    if chosen is None:
        return None
    fn, ct = rule(chosen)
    if rest or path != chosen:
        fn = fn.rstrip('/') + '/' + rest if rest or path.endswith('/') else fn
    if fn.endswith('/'):
        if '' in mapping:
            dfn, dct = rule('')
            fn += dfn
            if dct:
                ct = dct
        else:
            fn += 'index.html'
    if ct is None:
        ext = fn.rsplit('.')[-1]
        ct = CTYPES.get(ext, 'application/octet-stream')
    return fn, ct, chosen


def rule_root(mapping, chosen):
    v = mapping[chosen]
    fn = v if isinstance(v, str) else v['filename']
    return os.path.realpath(fn)


# ----------------------------------------------------------------- drivers

class EngineStub:
    """Stands in for the Engine.IO server: records that it was reached."""
    def __init__(self):
        self.hits = 0

    def handle_request(self, environ, start_response):
        self.hits += 1
        start_response('200 OK', [('Content-Type', 'text/plain')])
        return [b'ENGINE']


class AsyncEngineStub:
    def __init__(self):
        self.hits = 0

    async def handle_request(self, scope, receive, send):
        self.hits += 1
        await send({'type': 'http.response.start', 'status': 200, 'headers': []})
        await send({'type': 'http.response.body', 'body': b'ENGINE'})


def drive(coro):
    """Run a coroutine that never really suspends."""
    try:
        coro.send(None)
    except StopIteration as e:
        return e.value
    coro.close()
    raise report.HarnessError('coroutine suspended in a loop-less driver')


PAIR_PATHS = ['/', '/static', '/static/', '/static/file.css', '/static/sub', '/static/sub/', '/static/sub/file.css',
              '/static/noext', '/static/index.html', '/sub', '/sub/', '/sub/file.css', '/sub/deep/x.txt', '/index.html',
              '/static/../secret.txt', '/static/image.gif', '/nomatch', '/static/missing.css']


def make_apps(mapping, ep, wrapped):
    """One WSGIApp and one ASGIApp over the given mapping object, plus a function running one request on each."""
    import engineio
    eng, aeng = EngineStub(), AsyncEngineStub()
    hits = {'wrapped': 0}

    def other(environ, start_response):
        hits['wrapped'] += 1
        start_response('200 OK', [('Content-Type', 'text/plain')])
        return iter([b'WRAP', b'PED'])       # a one-shot iterable, as frameworks return

    async def aother(scope, receive, send):
        hits['wrapped'] += 1
        await send({'type': 'http.response.start', 'status': 200, 'headers': []})
        await send({'type': 'http.response.body', 'body': b'WRAPPED'})
    wapp = engineio.WSGIApp(eng, other if wrapped else None, static_files=mapping, engineio_path=ep)
    aapp = engineio.ASGIApp(aeng, aother if wrapped else None, static_files=mapping, engineio_path=ep)

    def request(kind, path):
        hits['wrapped'] = 0
        eng.hits = aeng.hits = 0
        if kind == 'wsgi':
            calls = []
            env = {'REQUEST_METHOD': 'GET', 'PATH_INFO': path, 'QUERY_STRING': '', 'SERVER_NAME': 'h',
                   'SERVER_PORT': '80', 'wsgi.url_scheme': 'http'}
            try:
                body = b''.join(wapp(env, lambda st, hd, exc_info=None: calls.append((st, hd))))
            except Exception as e:
                return {'who': 'exception', 'exc': type(e).__name__}
            if len(calls) != 1:
                return {'who': 'malformed', 'detail': 'start_response x%d' % len(calls)}
            return _classify(eng.hits, hits['wrapped'], int(calls[0][0].split(' ')[0]), dict(calls[0][1]).get('Content-Type'), body)
        sent = []

        async def receive():
            return {'type': 'http.request', 'body': b'', 'more_body': False}

        async def send(ev):
            sent.append(ev)
        try:
            drive(aapp({'type': 'http', 'method': 'GET', 'path': path, 'query_string': b'', 'headers': []}, receive, send))
        except report.HarnessError:
            raise
        except Exception as e:
            return {'who': 'exception', 'exc': type(e).__name__}
        if [e['type'] for e in sent] != ['http.response.start', 'http.response.body']:
            return {'who': 'malformed', 'detail': 'events %r' % [e['type'] for e in sent]}
        hdrs = {k.decode().lower(): v.decode() for k, v in sent[0].get('headers', [])}
        return _classify(aeng.hits, hits['wrapped'], sent[0]['status'], hdrs.get('content-type'), sent[1].get('body', b''))
    return request


def run_pairs(base, out):
    """Request p1 then p2 on the same application object (same mapping dict): the answer to p2 must be what a
    fresh application gives for p2 - routing depends on the path only, not on the history of requests."""
    import copy
    n = 0
    for mname in mappings(base):
        for wrapped in (False, True):
            fresh = {}
            for kind in ('wsgi', 'asgi'):
                for p2 in PAIR_PATHS:
                    fresh[(kind, p2)] = make_apps(copy.deepcopy(mappings(base)[mname]), 'engine.io', wrapped)(kind, p2)
            for kind in ('wsgi', 'asgi'):
                for p1 in PAIR_PATHS:
                    req = make_apps(copy.deepcopy(mappings(base)[mname]), 'engine.io', wrapped)
                    req(kind, p1)
                    for p2 in PAIR_PATHS:
                        got = req(kind, p2)
                        n += 1
                        if got != fresh[(kind, p2)]:
                            out.append(report.Violation(
                                {'impl': kind, 'kind': 'history_dependent_routing', 'trigger': 'request_pair'},
                                '[%s mapping=%s wrapped=%s] after a request for %r (and others), %r is answered %r; a fresh application answers %r'
                                % (kind, mname, wrapped, p1, p2, _brief(got), _brief(fresh[(kind, p2)])),
                                {'harness': 'pair', 'app': kind, 'mapping': mname, 'wrapped': wrapped, 'p1': p1, 'p2': p2},
                                weight=(0, len(p1) + len(p2))))
                            break
    return n


def _brief(o):
    return {k: (v[:30] if isinstance(v, (bytes, str)) else v) for k, v in o.items()}


def run_wsgi(path, mapping, ep, wrapped):
    import engineio
    import logging
    lg = logging.getLogger('engineio.server')       # diagnostics on: whatever the gateway logs at INFO is computed
    if lg.level != logging.INFO:
        lg.setLevel(logging.INFO)
        lg.addHandler(logging.NullHandler())
        lg.propagate = False
    eng = EngineStub()
    hits = {'wrapped': 0}

    def other(environ, start_response):
        hits['wrapped'] += 1
        start_response('200 OK', [('Content-Type', 'text/plain')])
        return iter([b'WRAP', b'PED'])       # a one-shot iterable, as frameworks return
    app = engineio.WSGIApp(eng, other if wrapped else None, static_files=mapping, engineio_path=ep)
    calls = []

    def start_response(status, headers, exc_info=None):
        calls.append((status, headers))
    environ = {'REQUEST_METHOD': 'GET', 'PATH_INFO': path, 'QUERY_STRING': '',
               'SERVER_NAME': 'h', 'SERVER_PORT': '80', 'wsgi.url_scheme': 'http'}
    try:
        body = app(environ, start_response)
        body = b''.join(body)
    except Exception as e:
        return {'who': 'exception', 'exc': type(e).__name__}
    if len(calls) != 1:
        return {'who': 'malformed', 'detail': 'start_response called %d times' % len(calls)}
    status, headers = calls[0]
    return _classify(eng.hits, hits['wrapped'], int(status.split(' ')[0]), dict(headers).get('Content-Type'), body)


def run_asgi(path, mapping, ep, wrapped):
    import engineio
    eng = AsyncEngineStub()
    hits = {'wrapped': 0}

    async def other(scope, receive, send):
        hits['wrapped'] += 1
        await send({'type': 'http.response.start', 'status': 200, 'headers': []})
        await send({'type': 'http.response.body', 'body': b'WRAPPED'})
    app = engineio.ASGIApp(eng, other if wrapped else None, static_files=mapping, engineio_path=ep)
    sent = []

    async def receive():
        return {'type': 'http.request', 'body': b'', 'more_body': False}

    async def send(ev):
        sent.append(ev)
    scope = {'type': 'http', 'method': 'GET', 'path': path, 'query_string': b'', 'headers': []}
    try:
        drive(app(scope, receive, send))
    except report.HarnessError:
        raise
    except Exception as e:
        return {'who': 'exception', 'exc': type(e).__name__}
    if [e['type'] for e in sent] != ['http.response.start', 'http.response.body']:
        return {'who': 'malformed', 'detail': 'events %r' % [e['type'] for e in sent]}
    hdrs = {k.decode().lower(): v.decode() for k, v in sent[0].get('headers', [])}
    return _classify(eng.hits, hits['wrapped'], sent[0]['status'], hdrs.get('content-type'), sent[1].get('body', b''))


def run_asgi_ws(path, mapping, ep, wrapped=True):
    """A WebSocket scope with a wrapped application present: under the endpoint it is the engine's, anywhere else the wrapped
    application's - static files are an HTTP matter."""
    import engineio
    eng = AsyncEngineStub()
    hits = {'wrapped': 0}

    async def other(scope, receive, send):
        hits['wrapped'] += 1
        await send({'type': 'websocket.close'})
    app = engineio.ASGIApp(eng, other if wrapped else None, static_files=mapping, engineio_path=ep)
    sent = []
    state = {'n': 0}

    async def receive():
        state['n'] += 1
        if state['n'] > 3:
            raise _End()
        return {'type': 'websocket.connect'} if state['n'] == 1 else {'type': 'websocket.disconnect', 'code': 1000}

    async def send(ev):
        sent.append(ev)
    scope = {'type': 'websocket', 'path': path, 'query_string': b'', 'headers': [], 'scheme': 'ws'}
    try:
        drive(app(scope, receive, send))
    except report.HarnessError:
        raise
    except _End:
        pass
    except Exception as e:
        return {'who': 'exception', 'exc': type(e).__name__}
    if eng.hits and not hits['wrapped']:
        return {'who': 'engine'}
    if hits['wrapped'] and not eng.hits:
        return {'who': 'wrapped'}
    if not eng.hits and not hits['wrapped'] and [e.get('type') for e in sent] == ['websocket.close']:
        return {'who': 'refused'}        # the handshake is refused: what "not found" is on a WebSocket scope
    return {'who': 'nobody', 'events': [e.get('type') for e in sent]}


def _classify(eng_hits, wrapped_hits, status, ctype, body):
    if eng_hits and not wrapped_hits:
        return {'who': 'engine'}
    if wrapped_hits and not eng_hits:
        if status != 200 or body != b'WRAPPED':
            return {'who': 'malformed', 'detail': 'the answer of the wrapped application arrived as status %r body %r' % (status, body)}
        return {'who': 'wrapped'}
    if eng_hits and wrapped_hits:
        return {'who': 'malformed', 'detail': 'both engine and wrapped app called'}
    if status == 404:
        return {'who': '404'}
    if status == 200:
        return {'who': 'file', 'ctype': ctype, 'body': body}
    return {'who': 'malformed', 'detail': 'status %r' % status}


# ------------------------------------------------------------------ oracle

def judge(app, path, mname, mapping, ep, wrapped, base, got):
    """Returns None or (kind, text)."""
    epn = norm_endpoint(ep)
    fallback = 'wrapped' if wrapped else '404'
    if got['who'] in ('exception', 'malformed'):
        # under-endpoint requests go to the stub which cannot fail
        return ('exception_escaped' if got['who'] == 'exception' else 'malformed_response',
                '%s for %r: %r' % (got['who'], path, got.get('exc') or got.get('detail')))
    if path + '/' == epn:
        return None      # DESIGN S4: endpoint without its trailing slash, no verdict
    if path.startswith(epn):
        if got['who'] != 'engine':
            return ('engine_not_reached', '%r lies under %r but %s answered' % (path, epn, got['who']))
        return None
    if got['who'] == 'engine':
        return ('engine_reached_outside_endpoint', '%r is not under %r but reached the engine' % (path, epn))
    segs = path.split('/')[1:]
    body_segs = segs[:-1] if path.endswith('/') else segs
    clean = path.startswith('/') and not any(s in UNCLEAN for s in body_segs) and '%' not in path
    ref = ref_static(path, mapping)
    if got['who'] == 'file':
        body = got['body']
        if not body.startswith(b'CONTENT-OF:'):
            return ('unknown_body', 'served body %r is no file of the scratch tree' % body[:40])
        rel = body[len(b'CONTENT-OF:'):].decode()
        served = os.path.realpath(os.path.join(base, rel))
        if ref is None:
            return ('served_without_mapping', '%r matches no static rule but file %r was served' % (path, rel))
        root = rule_root(mapping, ref[2])
        inside = served == root or served.startswith(root + os.sep)
        if not inside:
            return ('served_outside_root', '%r served %r which is outside the mapped root %r' % (path, rel, os.path.relpath(root, base)))
        if clean:
            want = os.path.realpath(ref[0])
            if served != want:
                return ('wrong_file', '%r served %r, mapping designates %r' % (path, rel, os.path.relpath(want, base)))
        if clean or True:
            # content type: explicit type of the mapping, else by the served file's extension
            want_ct = ref[1]
            ext_ct = CTYPES.get(served.rsplit('.')[-1], 'application/octet-stream')
            explicit = _explicit_type(mapping, ref[2], path)
            ok = got['ctype'] == (explicit or ext_ct) if clean else got['ctype'] in (explicit, ext_ct, want_ct)
            if not ok:
                return ('wrong_content_type', '%r served %r as %r, want %r' % (path, rel, got['ctype'], explicit or ext_ct))
        return None
    # not served
    if got['who'] != fallback:
        return ('wrong_fallback', '%r went to %s, want %s' % (path, got['who'], fallback))
    if clean and ref is not None and os.path.isfile(ref[0]):
        return ('existing_file_not_served', '%r designates existing %r but %s answered' % (path, os.path.relpath(ref[0], base), got['who']))
    return None


def _explicit_type(mapping, chosen, path):
    v = mapping[chosen]
    ct = None if isinstance(v, str) else v.get('content_type')
    if path.endswith('/') and path != chosen and '' in mapping and not isinstance(mapping[''], str):
        ct = mapping[''].get('content_type') or ct
    elif path.endswith('/') and '' in mapping and not isinstance(mapping[''], str) and \
            (v if isinstance(v, str) else v['filename']).endswith('/'):
        ct = mapping[''].get('content_type') or ct
    return ct


# ------------------------------------------------------------ enumeration

def all_paths(maxseg):
    for k in range(1, maxseg + 1):
        for t in itertools.product(SEGS, repeat=k):
            p = '/' + '/'.join(t)
            yield p
            if not p.endswith('/'):
                yield p + '/'
    yield '/'
    yield ''
    # names no file system accepts: a segment beyond NAME_MAX, a path beyond PATH_MAX, an embedded NUL - not files, like any
    # other path that names nothing
    for prefix in ('/', '/static/', '/static/sub/'):
        yield prefix + 'a' * 300 + '.js'
        yield prefix + 'in\x00dex.html'
    yield '/static' + '/sub' * 1100 + '/file.css'


_TREE = {}


def _work(chunk):
    base = _TREE['base']
    maps = mappings(base)
    out = []
    stats = {'runs': 0, 'engine': 0, 'file': 0, 'wrapped': 0, '404': 0, 'other': 0}
    outcomes = set()
    for path in chunk:
        for mname, mapping in maps.items():
            for ep in ENDPOINTS + (EXTRA_ENDPOINTS if path.count('/') <= 2 else []):
                if path.count('/') <= 2 and ep == ENDPOINTS[0]:
                    # the same path on a WebSocket scope
                    ref = run_asgi(path, mapping, ep, True)
                    got_ws = run_asgi_ws(path, mapping, ep)
                    stats['runs'] += 2
                    want_ws = 'engine' if ref['who'] == 'engine' else 'wrapped'
                    got_nw = run_asgi_ws(path, mapping, ep, wrapped=False)
                    stats['runs'] += 1
                    want_nw = 'engine' if ref['who'] == 'engine' else 'refused'
                    if got_nw['who'] != want_nw:
                        out.append(report.Violation(
                            {'impl': 'asgi', 'kind': 'websocket_scope_misrouted', 'trigger': 'no_wrapped_app'},
                            '[asgi mapping=%s endpoint=%r wrapped=False] a WebSocket scope for %r got %r, want %s (only websocket events are legal on a websocket scope)'
                            % (mname, ep, path, got_nw, want_nw),
                            {'harness': 'route_ws', 'app': 'asgi', 'path': path, 'mapping': mname, 'endpoint': ep, 'wrapped': False},
                            weight=(0, len(path))))
                    if got_ws['who'] != want_ws:
                        out.append(report.Violation(
                            {'impl': 'asgi', 'kind': 'websocket_scope_misrouted', 'trigger': _trigger(path)},
                            '[asgi mapping=%s endpoint=%r wrapped=True] a WebSocket scope for %r went to %r, want %s' % (mname, ep, path, got_ws, want_ws),
                            {'harness': 'route_ws', 'app': 'asgi', 'path': path, 'mapping': mname, 'endpoint': ep, 'wrapped': True},
                            weight=(0, len(path))))
                for wrapped in (False, True):
                    for app, fn in (('wsgi', run_wsgi), ('asgi', run_asgi)):
                        if path == '' and app == 'wsgi' and False:
                            continue
                        got = fn(path, mapping, ep, wrapped)
                        stats['runs'] += 1
                        stats[got['who'] if got['who'] in stats else 'other'] += 1
                        outcomes.add((got['who'], got.get('ctype'), got.get('body')))
                        v = judge(app, path, mname, mapping, ep, wrapped, base, got)
                        if v:
                            out.append(report.Violation(
                                {'impl': app, 'kind': v[0], 'trigger': _trigger(path)},
                                '[%s mapping=%s endpoint=%r wrapped=%s] %s' % (app, mname, ep, wrapped, v[1]),
                                {'harness': 'route', 'app': app, 'path': path, 'mapping': mname,
                                 'endpoint': ep, 'wrapped': wrapped}, weight=(0, len(path))))
    return [v.to_json() for v in out[:300]], stats, len(out), len(outcomes)


def _trigger(path):
    segs = path.split('/')
    if '..' in segs:
        return 'dotdot'
    if '.' in segs or '%2e%2e' in segs:
        return 'dot_or_encoded'
    if '' in segs[1:-1]:
        return 'empty_segment'
    return 'clean_path'


# ---------------------------------------------------------------- lifespan

class _End(Exception):
    pass


def lifespan_cases(maxlen):
    evs = ['lifespan.startup', 'lifespan.shutdown', 'lifespan.bogus']
    for k in range(0, maxlen + 1):
        for seq in itertools.product(evs, repeat=k):
            for up in ('none', 'sync', 'async', 'raise', 'araise'):
                for down in ('none', 'sync', 'async', 'raise', 'araise'):
                    for wrapped in (False, True):
                        yield (list(seq), up, down, wrapped)


def _cb(kind, log, name):
    if kind == 'none':
        return None
    if kind == 'sync':
        def f():
            log.append(name)
        return f
    if kind == 'async':
        async def f():
            log.append(name)
        return f
    if kind == 'raise':
        def f():
            log.append(name)
            raise RuntimeError('boom')
        return f

    async def f():
        log.append(name)
        raise RuntimeError('boom')
    return f


def run_lifespan(seq, up, down, wrapped):
    import engineio
    log = []
    passed = {'n': 0}

    async def other(scope, receive, send):
        passed['n'] += 1
    app = engineio.ASGIApp(AsyncEngineStub(), other if wrapped else None,
                           on_startup=_cb(up, log, 'up'), on_shutdown=_cb(down, log, 'down'))
    pending = list(seq)
    sent = []

    async def receive():
        if not pending:
            raise _End()
        return {'type': pending.pop(0)}

    async def send(ev):
        sent.append(ev['type'])
    ended = 'returned'
    try:
        drive(app({'type': 'lifespan'}, receive, send))
    except _End:
        ended = 'waiting'
    except report.HarnessError:
        raise
    except Exception as e:
        ended = 'exception:' + type(e).__name__
    return {'sent': sent, 'ended': ended, 'passed': passed['n'], 'callbacks': log}


def ref_lifespan(seq, up, down, wrapped):
    if wrapped and up == 'none' and down == 'none':
        return {'sent': [], 'ended': 'returned', 'passed': 1, 'callbacks': []}
    sent, cbs = [], []
    for ev in seq:
        if ev == 'lifespan.startup':
            if up != 'none':
                cbs.append('up')
            if up in ('raise', 'araise'):
                sent.append('lifespan.startup.failed')
                return {'sent': sent, 'ended': 'returned', 'passed': 0, 'callbacks': cbs}
            sent.append('lifespan.startup.complete')
        elif ev == 'lifespan.shutdown':
            if down != 'none':
                cbs.append('down')
            if down in ('raise', 'araise'):
                sent.append('lifespan.shutdown.failed')
            else:
                sent.append('lifespan.shutdown.complete')
            return {'sent': sent, 'ended': 'returned', 'passed': 0, 'callbacks': cbs}
    return {'sent': sent, 'ended': 'waiting', 'passed': 0, 'callbacks': cbs}


def run(ctx):
    rep = report.Report('C20', 'exploration')
    top, base = make_tree()
    _TREE['base'] = base
    try:
        maxseg = 4 if ctx.quick else 5
        paths = list(dict.fromkeys(all_paths(maxseg)))
        res = parallel.pmap_chunks(_work, parallel.split(paths, ctx.workers * 4), ctx.workers, ctx.seed)
        tot = {}
        nviol = 0
        nout = 0
        for vs, st, nv, no in res:
            nviol += nv
            nout = max(nout, no)
            for v in vs:
                rep.add(report.Violation.from_json(v))
            for k, v in st.items():
                tot[k] = tot.get(k, 0) + v
        pair_out = []
        npairs = run_pairs(base, pair_out)
        for v in pair_out:
            rep.add(v)
        lcases = 0
        louts = set()
        for seq, up, down, wrapped in lifespan_cases(3):
            got = run_lifespan(seq, up, down, wrapped)
            want = ref_lifespan(seq, up, down, wrapped)
            lcases += 1
            louts.add(report.dumps(got, sort_keys=True))
            if got != want:
                rep.add(report.Violation(
                    {'impl': 'asgi', 'kind': 'lifespan_mismatch', 'trigger': 'lifespan'},
                    'lifespan %r up=%s down=%s wrapped=%s: got %r want %r' % (seq, up, down, wrapped, got, want),
                    {'harness': 'lifespan', 'seq': seq, 'up': up, 'down': down, 'wrapped': wrapped},
                    weight=(0, len(seq))))
    finally:
        shutil.rmtree(top, ignore_errors=True)
    rep.coverage = {
        'evaluations': tot['runs'] + lcases + npairs,
        'distinct_nontrivial': len(paths) * len(mappings(base)) * len(ENDPOINTS) * 2,
        'rule': 'every path of <= %d segments over %r with and without trailing slash (%d paths) x 8 static '
                'mappings x endpoints %r (paths of <= 2 segments: all four slash spellings of each) x wrapped app present/absent x {WSGIApp, ASGIApp} on a scratch tree with '
                'unique file contents and a secret.txt outside every mapped root; every request sequence p1, then all of %d '
                'probe paths, on ONE application object compared with a fresh application (history independence); every '
                'lifespan event sequence of length <= 3 over {startup, shutdown, unknown} x 5x5 callback kinds x wrapped app. '
                'distinct_nontrivial = distinct (path, mapping, endpoint, wrapped) request configurations.'
                % (maxseg, SEGS, len(paths), ENDPOINTS, len(PAIR_PATHS)),
        'samples': [{'path': '/static/../secret.txt', 'mapping': 'dir', 'endpoint': 'engine.io'},
                    {'path': '/static/sub/', 'mapping': 'default_override'},
                    {'path': '/engine.iox/', 'endpoint': '/engine.io/'},
                    {'lifespan': ['lifespan.startup', 'lifespan.bogus', 'lifespan.shutdown'], 'up': 'araise'}],
        'exhaustive': True,
        'route_runs': tot['runs'], 'request_pair_runs': npairs, 'answered_by': {k: tot[k] for k in ('engine', 'file', 'wrapped', '404', 'other')},
        'lifespan_cases': lcases, 'lifespan_distinct_outcomes': len(louts),
        'violating_cases_total': nviol,
    }
    rep.assumptions = [
        'the path equal to the endpoint without its trailing slash is exercised but not judged (WSGIApp and ASGIApp differ; DESIGN S4)',
        "for paths with '.', '..', empty or percent-encoded segments only containment, fallback class and absence of exceptions are required",
        'symbolic links inside mapped roots are not part of the scratch tree',
    ]
    return rep


def replay(ctx, payload):
    r = payload['replay']
    if r['harness'] == 'pair':
        top, base = make_tree()
        try:
            out = []
            run_pairs(base, out)
            for v in out[:5]:
                print('REPLAY VIOLATION:', v.text)
            return 1 if out else 0
        finally:
            shutil.rmtree(top, ignore_errors=True)
    if r['harness'] == 'lifespan':
        got = run_lifespan(r['seq'], r['up'], r['down'], r['wrapped'])
        want = ref_lifespan(r['seq'], r['up'], r['down'], r['wrapped'])
        print('got ', got)
        print('want', want)
        return 1 if got != want else 0
    top, base = make_tree()
    try:
        mapping = mappings(base)[r['mapping']]
        if r['harness'] == 'route_ws':
            ref = run_asgi(r['path'], mapping, r['endpoint'], True)
            got = run_asgi_ws(r['path'], mapping, r['endpoint'], wrapped=r.get('wrapped', True))
            want = 'engine' if ref['who'] == 'engine' else ('wrapped' if r.get('wrapped', True) else 'refused')
            print('websocket scope went to', got, 'want', want)
            return 1 if got['who'] != want else 0
        fn = run_wsgi if r['app'] == 'wsgi' else run_asgi
        got = fn(r['path'], mapping, r['endpoint'], r['wrapped'])
        v = judge(r['app'], r['path'], r['mapping'], mapping, r['endpoint'], r['wrapped'], base, got)
        print('outcome:', got)
        print('verdict:', v)
        return 1 if v else 0
    finally:
        shutil.rmtree(top, ignore_errors=True)
