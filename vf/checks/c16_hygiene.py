"""C16 Session table hygiene: dead ids are inert, sessions isolated, nothing
leaks.

History search: every sequence of up to N actions over an alphabet of opens
(accepted, rejected, WebSocket), ends by every cause, vanishing clients at
several points of a session's life, user-data saves and clock ticks, with up
to three sessions, monitoring on, on both real servers. After every history:
API probes with every dead / foreign / never-issued id, then two full monitor
sweeps (table must equal the reference set of live sessions), then silence
until past the heartbeat bound (table must be empty, one disconnect each).
"""
import itertools

from vf import report
from vf.explore import core, digest, parallel
from vf.vworld import base, peer
from vf.checks.c12_admission import snapshot, RejectOnHeader

INTERVAL = 10.0
TIMEOUT = 1.0
_DIGESTS = set()
_STEPS = [0]
ACTIONS = ['open', 'open_rej', 'open_ws', 'close_post', 'disconnect_api', 'ws_close', 'vanish',
           'poll', 'upgrade', 'half_upgrade', 'save', 'tick', 'bad_post', 'open_ws_dropped']
# second pass: histories that start in the state "first PING is outstanding" (short heartbeat)
ACTIONS2 = ['talk', 'vanish', 'poll', 'tick', 'send', 'upgrade', 'half_upgrade', 'pong', 'close_post', 'send_bin']
INTERVAL2 = 2.0


class Sess:
    def __init__(self, sid, kind):
        self.sid = sid
        self.kind = kind          # polling / websocket
        self.ws = None
        self.ended = False        # a definitive end cause was applied
        self.vanished = False
        self.saved = None
        self.half = False


def first_live(ss):
    for s in ss:
        if not s.ended and not s.vanished:
            return s
    return None


def apply_action(w, ss, rejected, a):
    s = first_live(ss)
    if a in ('open', 'open_ws', 'open_rej', 'open_ws_dropped'):
        if len(ss) + len(rejected) >= 3:
            return False
        if a == 'open_ws_dropped':
            # a WebSocket open whose peer is gone before the handshake is answered: if a session was created for it,
            # it is a session whose client went away
            n = len([e for e in w.events if e[0] == 'connect'])
            w.ws(peer.WSQ, fail_accept=True)
            w.run()
            ev = [e for e in w.events if e[0] == 'connect']
            if len(ev) > n:
                x = Sess(ev[-1][1], 'websocket')
                x.vanished = True
                ss.append(x)
            return True
        if a == 'open':
            sid = peer.sid_of(peer.open_polling(w))
            if sid is None:
                return False
            ss.append(Sess(sid, 'polling'))
        elif a == 'open_ws':
            h = peer.ws_open(w)
            sid = [e[1] for e in w.events if e[0] == 'connect'][-1]
            x = Sess(sid, 'websocket')
            x.ws = h
            ss.append(x)
        else:
            w.http('GET', peer.BASEQ, headers={'X-Reject': '1'})
            w.run()
            rejected.append([e[1] for e in w.events if e[0] == 'connect'][-1])
        return True
    if a == 'tick':
        return w.tick()
    if a == 'close_post_last':
        # the YOUNGEST live session ends with a CLOSE packet (it then sits closed-but-unreaped behind older live ones)
        cand = [x for x in ss if not x.ended and not x.vanished and x.kind == 'polling']
        if len(cand) < 2:
            return False
        peer.post(w, cand[-1].sid, '1')
        cand[-1].ended = True
        return True
    if s is None:
        return False
    if a == 'close_post':
        if s.kind == 'websocket' and s.ws is not None and not s.half:
            w.ws_send(s.ws, '1')
            w.run()
        else:
            peer.post(w, s.sid, '1')
        s.ended = True
    elif a == 'bad_post':
        if s.kind != 'polling':
            return False
        peer.post(w, s.sid, '7')
        s.ended = True
    elif a == 'disconnect_api':
        w.call('disconnect', s.sid)
        w.run()
        s.ended = True
    elif a == 'ws_close':
        if s.ws is None or s.ws.client_closed:
            return False
        w.ws_close(s.ws)
        w.run()
        if not s.half:
            s.ended = True
        else:
            s.ws = None
            s.half = False
    elif a == 'talk':
        # application data instead of the PONG
        if s.kind == 'websocket' and s.ws is not None and not s.half:
            w.ws_send(s.ws, '4still-here')
            w.run()
        else:
            peer.post(w, s.sid, '4still-here')
    elif a == 'pong':
        if s.kind == 'websocket' and s.ws is not None and not s.half:
            w.ws_send(s.ws, '3')
            w.run()
        else:
            peer.post(w, s.sid, '3')
    elif a == 'send':
        w.call('send', s.sid, 'from-app')
        w.run()
    elif a == 'send_bin':
        w.call('send', s.sid, b'\x00\xffbinary')      # a binary message that may still be queued when the session ends
        w.run()
    elif a == 'vanish':
        s.vanished = True
        if s.ws is not None:
            w.ws_vanish(s.ws)
    elif a == 'poll':
        if s.kind != 'polling' or any(not r.done and ('sid=' + s.sid) in r.query for r in w.reqs):
            return False
        peer.poll(w, s.sid)
    elif a == 'upgrade':
        if s.kind != 'polling' or s.ws is not None:
            return False
        s.ws = peer.do_upgrade(w, s.sid)
        s.kind = 'websocket'
    elif a == 'half_upgrade':
        if s.kind != 'polling' or s.ws is not None:
            return False
        s.ws = peer.ws_upgrade(w, s.sid)
        w.ws_send(s.ws, '2probe')
        w.run()
        s.half = True
    elif a == 'save':
        c = w.call('save_session', s.sid, {'owner': s.sid})
        w.run()
        s.saved = {'owner': s.sid}
    else:
        raise AssertionError(a)
    return True


def V(out, impl, kind, trigger, text, hist):
    out.append(report.Violation({'impl': impl, 'kind': kind, 'trigger': trigger},
                                '[%s] after %r: %s' % (impl, list(hist), text),
                                {'impl': impl, 'history': list(hist)}, weight=(len(hist), 0)))


API_NAMES = ['send', 'get_session', 'save_session', 'session_ctx', 'transport']


def api_probe(w, impl, ids, what, out, hist, first=None):
    """ids that must be inert. `first` names the API call that touches each id first (the first touch of a
    closed-but-unreaped entry is the one that matters: it reaps the entry for the calls that follow)."""
    for sid in ids:
        before = snapshot(w)
        calls = [('get_session', (sid,)), ('save_session', (sid, {'x': 1})), ('session_ctx', (sid,)), ('transport', (sid,))]
        if first and first != 'send':
            calls.sort(key=lambda c: c[0] != first)
            lead = calls.pop(0)
        else:
            lead = None
        if lead:
            c = w.call(lead[0], *lead[1])
            w.run()
            if not c.done:
                V(out, impl, 'api_blocked', what, '%s(%s id) did not return' % (lead[0], what), hist)
            elif c.exc is None:
                V(out, impl, 'dead_id_addressable', what, '%s(%s id) as the first touch returned %r instead of raising KeyError'
                  % (lead[0], what, c.result), hist)
            elif c.exc['type'] != 'KeyError':
                V(out, impl, 'dead_id_wrong_error', what, '%s(%s id) raised %s' % (lead[0], what, c.exc['type']), hist)
        c = w.call('send', sid, 'to-the-dead')
        w.run()
        if not c.done or c.exc:
            V(out, impl, 'send_dead_id_not_silent', what, 'send(%s id) done=%s exc=%r' % (what, c.done, c.exc), hist)
        for name, args in calls:
            c = w.call(name, *args)
            w.run()
            if not c.done:
                V(out, impl, 'api_blocked', what, '%s(%s id) did not return' % (name, what), hist)
            elif c.exc is None:
                V(out, impl, 'dead_id_addressable', what, '%s(%s id) returned %r instead of raising KeyError' % (name, what, c.result), hist)
            elif c.exc['type'] != 'KeyError':
                V(out, impl, 'dead_id_wrong_error', what, '%s(%s id) raised %s' % (name, what, c.exc['type']), hist)
        if snapshot(w) != before:
            V(out, impl, 'dead_id_touched_other_session', what, 'API calls with a %s id changed live sessions or fired events' % what, hist)


def run_history(impl, hist, out, first=None):
    ping_state = bool(hist) and hist[0] == '@ping'
    iv = INTERVAL2 if ping_state else INTERVAL
    w = peer.make_world(impl, server_kwargs=dict(ping_interval=iv, ping_timeout=TIMEOUT, monitor_clients=True),
                        behaviour=RejectOnHeader())
    ss, rejected = [], []
    try:
        if ping_state:
            # prepared state: one polling session whose first PING has just been delivered and is unanswered
            hist = hist[1:]
            apply_action(w, ss, rejected, 'open')
            g = peer.poll(w, ss[0].sid)
            w.run_until(INTERVAL2)
            if not (g.done and g.status == 200 and (2, '') in peer.decode_body(g.text())):
                V(out, impl, 'setup_failed', 'ping_state', 'no PING delivered at %.1f: %r' % (INTERVAL2, g.brief()), hist)
                return None
        for a in hist:
            if not apply_action(w, ss, rejected, a):
                return None
        _DIGESTS.add(digest.world_digest(w))
        # --- isolation of user data
        for s in ss:
            if s.ended:
                continue
            c = w.call('get_session', s.sid)
            w.run()
            if c.exc is None and c.done:
                want = s.saved or {}
                if c.result != want:
                    V(out, impl, 'session_data_leak', 'save', 'get_session(%s) = %r, want %r' % (s.sid[-4:], c.result, want), hist)
        # --- inert ids
        api_probe(w, impl, ['neverissued0000000000'], 'never-issued', out, hist)
        api_probe(w, impl, rejected, 'rejected', out, hist)
        api_probe(w, impl, [s.sid for s in ss if s.ended], 'disconnected', out, hist, first)
        # --- two full sweeps: the table holds exactly the live sessions
        t0 = w.now
        w.run_until(t0 + 2 * TIMEOUT + 0.5)
        live_ref = sorted(s.sid for s in ss if not s.ended)
        if w.now < iv and not ping_state:      # nobody can have timed out yet
            table = sorted(w.table_sids())
            if table != live_ref:
                V(out, impl, 'table_not_exact_after_sweeps', 'sweep',
                  'table %r, reference live set %r (%.1fs after the history)' % ([x[-4:] for x in table], [x[-4:] for x in live_ref], w.now - t0), hist)
        # --- silence: everybody is eventually reaped, exactly one disconnect per accepted session
        w.run_until(t0 + iv + 3 * TIMEOUT + 2 * TIMEOUT + 0.5 + iv)
        if w.table_sids():
            V(out, impl, 'session_leaked', 'silence', 'table still holds %r after %.1fs of silence' % ([x[-4:] for x in w.table_sids()], w.now - t0), hist)
        for s in ss:
            n = len([e for e in w.events if e[0] == 'disconnect' and e[1] == s.sid])
            if n != 1:
                V(out, impl, 'disconnect_count', 'silence', 'session %s got %d disconnect events' % (s.sid[-4:], n), hist)
        for sid in rejected:
            if [e for e in w.events if e[1] == sid and e[0] != 'connect']:
                V(out, impl, 'event_for_rejected_sid', 'rejected', 'events for a rejected id', hist)
        api_probe(w, impl, [s.sid for s in ss][:1], 'reaped', out, hist)
        return True
    finally:
        _STEPS[0] += w.nstep
        w.teardown()



def run_shielded(impl, hist, out, lagging=False):
    """After the history, the oldest session has a healthy client (it polls and answers every PING) while every other
    session falls silent: within the heartbeat bound the table holds exactly that one session."""
    # lagging: ping_interval 1 s, ping_timeout 3 s, and every PONG of the healthy client takes 1.5 s to arrive (longer than an
    # interval, well within the timeout) over eight heartbeat cycles
    iv2, to2, lag = (1.0, 3.0, 1.5) if lagging else (INTERVAL2, TIMEOUT, 0.0)
    mark = '@lag' if lagging else '@shield'
    w = peer.make_world(impl, server_kwargs=dict(ping_interval=iv2, ping_timeout=to2, monitor_clients=True),
                        behaviour=RejectOnHeader())
    ss, rejected = [], []
    try:
        for a in hist:
            if not apply_action(w, ss, rejected, a):
                return None
        if len(ss) < 2 or ss[0].kind != 'polling' or ss[0].ended or ss[0].vanished or ss[0].half:
            return None
        if any(not r.done and r.method == 'GET' for r in w.reqs):
            return None          # the healthy client starts from a state without a poll of its own outstanding
        t0 = w.now
        ok = peer.keepalive(w, ss[0].sid, t0 + max(iv2 + 3 * to2 + 2 * to2 + 0.5 + iv2, 8 * (iv2 + lag)), lag=lag)
        table = sorted(w.table_sids())
        if not ok or ss[0].sid not in w.live_sids():
            V(out, impl, 'live_peer_dropped', 'shielded', 'the healthy oldest session was dropped (disconnects %r)'
              % [(e[1][-4:], e[2]) for e in w.events if e[0] == 'disconnect'], (mark,) + tuple(hist))
        elif table != [ss[0].sid]:
            V(out, impl, 'session_leaked', 'shielded', 'the oldest session is healthy, the others silent for %.1fs: table %r, want only %r'
              % (w.now - t0, [x[-4:] for x in table], ss[0].sid[-4:]), (mark,) + tuple(hist))
        return True
    finally:
        _STEPS[0] += w.nstep
        w.teardown()


# ------------------------------------------------------------------ user data under concurrent handlers

class UserData(core.Scenario):
    """Two (three) live sessions whose handlers use session() / save_session() / get_session() at the same time:
    whatever the interleaving, each session ends up with exactly the data saved for it."""
    horizon = 0.0

    def build(self):
        p = self.params
        w = self.world = peer.make_world(p['impl'], server_kwargs=dict(ping_interval=50, ping_timeout=50))
        self.sids = [peer.sid_of(peer.open_polling(w)) for _ in range(p['n'])]
        self.calls = []
        self.scripts = []
        for i, ops in enumerate(p['ops']):
            sid = self.sids[i]
            sc_ = []
            for k, op in enumerate(ops):
                def fire(sc, op=op, sid=sid, i=i, k=k):
                    if op == 'ctx':
                        c = sc.world.call('session_ctx', sid, {'owner': i, 'k%d' % k: i})
                    elif op == 'save':
                        c = sc.world.call('save_session', sid, {'owner': i, 'k%d' % k: i})
                    else:
                        c = sc.world.call('get_session', sid)
                    sc.calls.append((i, op, c))
                sc_.append(core.Action('%s(%d)' % (op, i), fire))
            self.scripts.append(sc_)

    def finish(self):
        w = self.world
        w.run()
        self._obs = []
        for i, op, c in self.calls:
            if not c.done or c.exc:
                self.flag('api_call_failed', '%s on live session %d: done=%s exc=%r' % (op, i, c.done, c.exc), trigger='concurrent_user_data')
            elif isinstance(c.result, dict) and c.result.get('owner', i) != i:
                self.flag('user_data_crossed', '%s on session %d returned the data of session %r: %r' % (op, i, c.result.get('owner'), c.result),
                          trigger='concurrent_user_data')
        for i, sid in enumerate(self.sids):
            g = w.call('get_session', sid)
            w.run()
            data = g.result if g.done and not g.exc else None
            self._obs.append(report.dumps(data, sort_keys=True))
            wrote = any(op in ('ctx', 'save') for op in self.params['ops'][i])
            if not isinstance(data, dict) or (data and data.get('owner') != i) or (wrote and not data):
                self.flag('user_data_crossed' if data else 'user_data_lost',
                          'after concurrent handlers, the data of session %d is %r (each handler saved {owner: its own index})' % (i, data),
                          trigger='concurrent_user_data')
            for j, other in enumerate(self.sids):
                if j < i and data is not None and g.result is getattr(self, '_dicts', {}).get(j):
                    self.flag('user_data_shared', 'sessions %d and %d share one data object' % (j, i), trigger='concurrent_user_data')
            self.__dict__.setdefault('_dicts', {})[i] = g.result

    def observation(self):
        return self._obs


def userdata_params():
    ps = []
    for impl in ('sync', 'async'):
        for ops in ([['ctx'], ['ctx']], [['ctx', 'ctx'], ['ctx']], [['ctx'], ['save']], [['ctx'], ['get']],
                    [['save', 'get'], ['ctx']], [['ctx'], ['ctx'], ['ctx']]):
            ps.append({'impl': impl, 'n': len(ops), 'ops': ops, '_free_switch': True})
    return ps

def _work(chunk):
    out = []
    n = 0
    _DIGESTS.clear()
    _STEPS[0] = 0
    for impl, hist in chunk:
        try:
            if hist and hist[0] in ('@shield', '@lag'):
                if run_shielded(impl, hist[1:], out, lagging=hist[0] == '@lag'):
                    n += 1
                continue
            if run_history(impl, hist, out):
                n += 1
                if hist and hist[-1] in ('close_post', 'bad_post', 'disconnect_api', 'ws_close') and len(hist) <= 3:
                    # the session just ended and its entry may still sit in the table: let every API be the first to touch it
                    for first in API_NAMES[1:]:
                        run_history(impl, hist, out, first)
                        n += 1
        except report.Livelock as e:
            out.append(report.livelock_violation(impl, e, {'impl': impl, 'history': list(hist)}))
    return [v.to_json() for v in out[:300]], n, len(out), sorted(_DIGESTS), _STEPS[0]


def run(ctx):
    rep = report.Report('C16', 'model_checking')
    depth = 4 if ctx.quick else 5
    hists = [()]
    for k in range(1, depth + 1):
        hists += list(itertools.product(ACTIONS, repeat=k))
    if ctx.quick:
        a0 = ['open', 'open_ws'][ctx.seed % 2]
        a1 = ACTIONS[(ctx.seed // 2) % len(ACTIONS)]
        hists += [(a0, a1) + t for t in itertools.product(ACTIONS, repeat=2)]
    else:
        a1 = ACTIONS[ctx.seed % len(ACTIONS)]
        hists += [('open', a1) + t for t in itertools.product(ACTIONS, repeat=3)]
    hists = [h for h in hists if not h or h[0] in ('open', 'open_rej', 'open_ws', 'tick')]
    import itertools as _it
    for k in range(0, (3 if ctx.quick else 4) + 1):
        hists += [('@ping',) + t for t in _it.product(ACTIONS2, repeat=k)]
    for k in range(2, 4):
        hists += [('@shield', 'open') + t for t in _it.product(ACTIONS, repeat=k - 1)]
    hists += [('@lag', 'open') + t for t in _it.product(ACTIONS, repeat=1)]
    # sessions that come and go while the monitor is in the middle of a sweep (its pauses between two sessions are deadlines
    # that 'tick' stops at): the youngest closes, time moves to the next deadline, a new session opens, ...
    for k in range(1, 5):
        hists += [('open', 'open') + t for t in _it.product(['close_post_last', 'tick', 'open', 'poll'], repeat=k)]
    jobs = [(impl, h) for impl in ('sync', 'async') for h in hists]
    res = parallel.pmap_chunks(_work, parallel.split(jobs, ctx.workers * 8), ctx.workers, ctx.seed, maxtasks=4)
    n = 0
    nv = 0
    digs = set()
    steps = 0
    for vs, k, m, dg, stp in res:
        n += k
        nv += m
        digs |= set(dg)
        steps += stp
        for v in vs:
            rep.add(report.Violation.from_json(v))
    ups = userdata_params()
    ust, uviols, _, ugate = core.run_search(UserData, ups, 2, ctx.workers, ctx.seed)
    for v in uviols:
        pr = v['params']
        rep.add(report.Violation(
            dict({'impl': pr['impl'], 'kind': v['kind']}, **v['sig']),
            '[%s ops=%r] %s (choices=%s)' % (pr['impl'], pr['ops'], v['text'], ''.join(map(str, v['choices']))),
            {'harness': 'userdata', 'params': pr, 'choices': v['choices']}, weight=(v['dev'], len(v['choices']))))
    n += ust.executions
    rep.coverage = {
        'states': len(digs), 'transitions': steps, 'traces_validated_against_impl': n,
        'samples': [{'history': ['open', 'half_upgrade', 'vanish']}, {'history': ['open', 'save', 'open', 'disconnect_api']},
                    {'history': ['open_rej', 'open_ws', 'close_post']}],
        'evaluations': n, 'distinct_nontrivial': n,
        'rule': 'every enabled history of <= %d actions over %r (first action an open or tick; histories whose next action is not '
                'enabled are pruned) plus one complete seed-chosen slice one level deeper, plus every history of <= 3 (thorough 4) '
                'actions over %r started from the prepared state "first PING outstanding" (ping_interval=2); each followed by API '
                'probes with never-issued / rejected / disconnected ids, two monitor sweeps and silence past the heartbeat bound; '
                'both servers; histories of <= 3 actions whose oldest session then keeps a healthy client (polling, answering PINGs) while the others fall silent - the table must end up holding exactly that session; every history of <= 4 further actions over {close the youngest, tick, open, poll} after two opens (sessions coming and going in the middle of a monitor sweep); plus a schedule search (free switching, <= 2 preemptions, scheduling points between creating, entering and leaving the session() context) over two / three sessions whose handlers use session(), save_session() and get_session() at the same time: each session keeps exactly its own data. states = distinct canonical digests of the world reached by the histories (before the epilogue); '
                'transitions = scheduler steps executed; traces = enabled histories.' % (depth, ACTIONS, ACTIONS2),
        'exhaustive': True, 'bound_completed': depth, 'violating_cases_total': nv,
        'concurrent_user_data': {'scenarios': len(ups), 'executions': ust.executions, 'distinct_outcomes': len(ust.outcomes),
                                 'deviation_bound': 2, 'caps_hit': ust.caps, 'determinism_gate': ugate},
    }
    rep.assumptions = [
        'ping_interval=10, ping_timeout=1 so that two monitor sweeps fit before any heartbeat deadline; default schedule',
        'disconnect(sid) may block (known C15 finding); its effect on the table is still judged',
    ]
    return rep


def replay(ctx, payload):
    r = payload['replay']
    if r.get('harness') == 'userdata':
        ex = core.execute(UserData, r['params'], r['choices'], want_labels=True)
        for lab in ex.labels:
            print('  ', lab)
        for v in ex.violations:
            print('REPLAY VIOLATION:', v)
        return 1 if ex.violations else 0
    out = []
    if r['history'] and r['history'][0] in ('@shield', '@lag'):
        print('enabled:', run_shielded(r['impl'], tuple(r['history'][1:]), out, lagging=r['history'][0] == '@lag'))
    else:
        print('enabled:', run_history(r['impl'], tuple(r['history']), out))
    for v in out:
        print('REPLAY VIOLATION:', v.text)
    return 1 if out else 0
