"""C10 This package's clients and servers interoperate without loss or
disagreement.

Schedule search on a real client connected to a real server in one virtual
world (all 2x2 implementation pairs, three transport settings, two heartbeat
settings): bursts of sends in both directions with mixed payload kinds, an
idle period of several heartbeat cycles (closed by a lasso check on the
state digest), and a disconnect initiated by either side; the two
application scripts run in parallel under every interleaving, with up to one
deviation for the same-kind pairs (thorough: all pairs).
"""
from vf import report
from vf.explore import core, digest
from vf.models import codec
from vf.vworld import combo

KINDS = [lambda i, p: '%s-t%d' % (p, i), lambda i, p: {'from': p, 'n': i}, lambda i, p: ('%s%d' % (p, i)).encode() + b'\x00\xff']
BURSTS = [1, 2, 16, 17, 40]


# every shape of payload the API accepts, degenerate ones first
ZOO = ['', {}, [], b'', [[]], {'k': {}}, 'plain', 'unicode-\u00e9-\u2028-\U0001f600', {'n': None, 't': True, 'f': 1.5, 's': 'x'},
       [1, 'two', [3]], b'\x00', b'\xff' * 40, ' leading and trailing ',
       list(range(200)), {'key%03d' % i: i for i in range(150)}, 'x' * 300, {'limit': float('inf'), 'low': [float('-inf'), 1.5]}]      # collections / text longer than anything a log line keeps
_ZOO_ON = [False]


def payload(i, who):
    if _ZOO_ON[0]:
        return ZOO[i]
    return KINDS[i % 3](i, who)


class _Greeter:
    """Server application whose connect handler sends to the new session before accepting it."""
    GREETINGS = ['hello-1', {'hello': 2}, b'\x00hello-3']

    def connect(self, sid, environ):
        return [('send', sid, g) for g in self.GREETINGS]

    def message(self, sid, data):
        return []

    def disconnect(self, sid, reason):
        return []


class Interop(core.Scenario):
    def build(self):
        p = self.params
        _ZOO_ON[0] = bool(p.get('zoo'))
        iv, to = p['heartbeat']
        self.iv, self.to = iv, to
        lat = self.lat = p.get('latency', 0.0)
        if p.get('neighbour'):
            # other servers of this package were created earlier in the same process with another configuration
            import engineio
            engineio.Server(async_mode='threading', transports=['polling'], allow_upgrades=False, ping_interval=7)
            engineio.AsyncServer(async_mode='asgi', transports=['polling'], allow_upgrades=False, ping_interval=7)
        w = self.world = combo.ComboWorld(p['client'], p['server'],
                                          server_kwargs=dict(ping_interval=iv, ping_timeout=to, async_handlers=False), latency=lat,
                                          behaviour=_Greeter() if p.get('greet') else None)
        self.conn = w.cw.call('connect', 'http://h', transports=p['transports'])
        if lat:
            # the connection (and the upgrade, which may straddle the first heartbeat) takes a dozen one-way trips
            w.run_until(p.get('settle', 16) * lat)
        else:
            w.run()
        self.sid = w.cw.client.sid
        if p.get('connect_again'):
            # the application calls connect() on the connected client (a retry timer): refused, the conversation goes on
            self.again = w.cw.call('connect', 'http://h', transports=p['transports'])
            w.run()
        if p.get('fault') is not None and w.sw.wss:
            # one write of the server on the WebSocket fails (connection reset), k frames from now
            h = w.sw.wss[-1]
            h.fail_send_at = getattr(h, 'nsend', 0) + p['fault']
        self.t_burst = 0.0
        self.idle_cycles = p.get('idle', 0)
        self.t_end = w.now + ((self.idle_cycles) * (iv + 2 * lat) + 0.5 if self.idle_cycles else 0.0)
        self.horizon = self.t_end + iv + to + 8.0 + 8 * lat
        n_c, n_s = p['c2s'], p['s2c']
        sid = self.sid
        self.issued = {'c': {}, 's': {}}
        self.settled = {'c': set(), 's': set()}
        self.quiet = 0

        def csend(sc, i):
            sc.issued['c'][i] = sc.world.nstep
            sc.world.cw.call('send', payload(i, 'c'))

        def ssend(sc, i):
            sc.issued['s'][i] = sc.world.nstep
            sc.world.sw.call('send', sid, payload(i, 's'))
        if p.get('atonce'):
            # a real burst: one application task issues all sends back to back
            def cburst(sc):
                for i in range(n_c):
                    sc.issued['c'][i] = sc.world.nstep
                sc.world.cw.call_seq('send', [(payload(i, 'c'),) for i in range(n_c)])

            def sburst(sc):
                for i in range(n_s):
                    sc.issued['s'][i] = sc.world.nstep
                sc.world.sw.call_seq('send', [(sid, payload(i, 's')) for i in range(n_s)])
            capp = [core.Action('cburst%d' % n_c, cburst)] if n_c else []
            sapp = [core.Action('sburst%d' % n_s, sburst)] if n_s else []
        else:
            capp = [core.Action('csend%d' % i, lambda sc, i=i: csend(sc, i)) for i in range(n_c)]
            sapp = [core.Action('ssend%d' % i, lambda sc, i=i: ssend(sc, i)) for i in range(n_s)]
        who = p.get('disconnect')
        self.disc_step = None
        if who == 'client':
            capp.append(core.Action('client.disconnect', lambda sc: (setattr(sc, 'disc_step', sc.world.nstep), sc.world.cw.call('disconnect')),
                                    None, self.t_end))
        elif who == 'server':
            sapp.append(core.Action('server.disconnect', lambda sc: (setattr(sc, 'disc_step', sc.world.nstep), sc.world.sw.call('disconnect', sid)),
                                    None, self.t_end))
        self.scripts = [capp, sapp]
        if p.get('zoo') and not p.get('atonce'):
            # one script, alternating directions (the interleavings of 14 + 14 independent sends are not the point here)
            self.scripts = [[a for pair in zip(capp, sapp) for a in pair]]
        self.digests = []

    def step_check(self):
        if not self.world.runnable() and not self.world.net:
            self.quiet = self.world.nstep
            for d in ('c', 's'):
                for i, st in self.issued[d].items():
                    if i not in self.settled[d] and st < self.quiet and self.disc_step is None:
                        self.settled[d].add(i)
        # lasso bookkeeping during the idle phase: digest at the same phase of consecutive heartbeat cycles
        if self.idle_cycles and not self.lat and not self.world.runnable():
            t = self.world.now
            k = t / self.iv
            if abs(k - round(k)) < 1e-9 and 1 <= round(k) <= self.idle_cycles and t < self.t_end:
                key = round(k)
                if not self.digests or self.digests[-1][0] != key:
                    self.digests.append((key, self.state_digest()))

    def state_digest(self):
        w = self.world
        c = w.cw.client
        q = getattr(c.queue, 'items', None)
        if q is None:
            q = getattr(c.queue, '_queue', [])
        return report.dumps({'server': digest.sessions_state(w.sw, live_only=False),
                             'client': [c.state, c.current_transport, len(q)],
                             'pending': sorted((r.method, r.done) for r in w.sw.reqs if not r.done)}, sort_keys=True)

    def finish(self):
        w = self.world
        p = self.params
        _ZOO_ON[0] = bool(p.get('zoo'))
        trig = '%s/%s' % ('+'.join(p['transports'] or ['both']), 'burst>16' if max(p['c2s'], p['s2c']) > 16 else 'burst<=16')
        if self.lat:
            trig += '/latency'
        if not self.conn.done or self.conn.exc:
            self.flag('connect_failed', 'connect(): done=%s exc=%r' % (self.conn.done, self.conn.exc), trigger=trig)
            return
        if self.lat and p['transports'] is None and getattr(w.cw.client, 'current_transport', None) != 'websocket' and \
                w.cw.client.state == 'connected':
            self.flag('upgrade_not_completed', 'both transports allowed, latency %.3f: client still on %r at t=%.3f'
                      % (self.lat, w.cw.client.current_transport, w.now), trigger=trig)
        w.run_until(self.horizon)
        cev, sev = w.cw.events, w.sw.events
        got_s = [e[2] for e in sev if e[0] == 'message']
        got_c = [e[1] for e in cev if e[0] == 'message']
        disp_c = list(w.cw.dispatch_log)
        who = p.get('disconnect')
        ds = self.disc_step if self.disc_step is not None else 10 ** 12
        # owed: every send after which the world reached quiescence before the disconnect was requested;
        # sends still in flight when the other side hangs up, or issued later, may or may not arrive
        owed_s = [payload(i, 'c') for i in range(p['c2s']) if i in self.settled['c']]
        owed_c = [payload(i, 's') for i in range(p['s2c']) if i in self.settled['s']]
        all_s = [payload(i, 'c') for i in range(p['c2s'])]
        all_c = [payload(i, 's') for i in range(p['s2c'])]
        if p.get('greet'):
            # what the connect handler sent comes first and is owed like everything else
            all_c = list(_Greeter.GREETINGS) + all_c
            owed_c = list(_Greeter.GREETINGS) + owed_c

        def subseq_ok(got, owed, allp):
            # got must be an in-order selection of all sent payloads that contains every owed one
            j = 0
            for g in got:
                while j < len(allp) and not codec.payload_equal(bytes(g) if isinstance(g, bytearray) else g, allp[j]):
                    j += 1
                if j == len(allp):
                    return False
                j += 1
            return all(any(codec.payload_equal(bytes(g) if isinstance(g, bytearray) else g, o) for g in got) for o in owed)
        want_s, want_c = all_s, all_c

        def same(a, b):
            return len(a) == len(b) and all(codec.payload_equal(bytes(x) if isinstance(x, bytearray) else x, y) for x, y in zip(a, b))
        # a send issued after the disconnect was requested is not owed
        if who is not None and p.get('fault') is None:
            if not subseq_ok(got_s, owed_s, all_s):
                self.flag('c2s_loss_or_disorder', 'server received %r; owed (sent before the disconnect) %r of %r' % (got_s, owed_s, all_s),
                          trigger=trig, direction='c2s', n=p['c2s'])
            if not subseq_ok(disp_c, owed_c, all_c):
                self.flag('s2c_loss_or_disorder', 'client dispatched %r; owed (sent before the disconnect) %r of %r' % (disp_c, owed_c, all_c),
                          trigger=trig, direction='s2c', n=p['s2c'])
        elif p.get('fault') is None:
            if not same(got_s, want_s):
                lost = len(want_s) - len(got_s)
                self.flag('c2s_loss_or_disorder', 'server received %d of %d client messages%s' %
                          (len(got_s), len(want_s), '' if lost else ' (order/payload differs: %r)' % (got_s[:4],)),
                          trigger=trig, direction='c2s', n=p['c2s'])
            if not same(disp_c, want_c) or sorted(map(repr, got_c)) != sorted(map(repr, want_c)):
                self.flag('s2c_loss_or_disorder', 'client received %d (dispatched %d) of %d server messages' %
                          (len(got_c), len(disp_c), len(want_c)), trigger=trig, direction='s2c', n=p['s2c'])
        cd = [e for e in cev if e[0] == 'disconnect']
        sd = [e for e in sev if e[0] == 'disconnect']
        if p.get('fault') is not None:
            # a failed write ends the connection: one disconnect on each side, and what the client received is a
            # prefix of what the server sent (nothing is delivered after the frame that failed)
            if len(cd) != 1 or len(sd) != 1:
                self.flag('disconnect_count', 'a write of the server failed: client saw %r, server saw %r (want one each)'
                          % ([e[1] for e in cd], [e[2] for e in sd]), trigger='server_write_fault',
                          client_saw='+'.join(e[1] for e in cd), server_saw='+'.join(e[2] for e in sd))
            if not same(disp_c, all_c[:len(disp_c)]):
                self.flag('s2c_loss_or_disorder', 'a write of the server failed; the client dispatched %r, the server sent %r: not a prefix'
                          % (disp_c, all_c), trigger='server_write_fault', direction='s2c', n=p['s2c'])
            return
        if who is None:
            if cd or sd:
                self.flag('spurious_disconnect', 'nobody disconnected, yet client saw %r and server saw %r' %
                          ([(e[1], e[2]) for e in cd], [(e[2], e[3]) for e in sd]), trigger=trig)
            if self.idle_cycles:
                if w.cw.client.state != 'connected' or self.sid not in w.sw.live_sids():
                    self.flag('idle_connection_died', 'after %d heartbeat cycles: client state %r, server session alive=%s' %
                              (self.idle_cycles, w.cw.client.state, self.sid in w.sw.live_sids()), trigger=trig)
                ds = [d for k, d in self.digests]
                if not self.lat and len(ds) >= 3 and not any(ds[i] == ds[i + 1] for i in range(1, len(ds) - 1)):
                    self.flag('no_lasso', 'state digest never recurs over %d idle heartbeat cycles (growing state?)' % len(ds), trigger=trig)
        else:
            if len(cd) != 1 or len(sd) != 1:
                self.flag('disconnect_count', 'after %s.disconnect(): client saw %r, server saw %r' %
                          (who, [e[1] for e in cd], [e[2] for e in sd]), trigger=who + '.disconnect',
                          client_saw='+'.join(e[1] for e in cd), server_saw='+'.join(e[2] for e in sd))

    def observation(self):
        w = self.world
        return {'c': [(e[0], repr(e[1])[:20] if e[0] != 'connect' else None) for e in w.cw.events],
                's': [(e[0], repr(e[2])[:20]) for e in w.sw.events],
                'scenario': report.dumps(self.params, sort_keys=True)}


def param_list(ctx, pairs):
    ps = []
    for c, s in pairs:
        for tr in (['polling'], ['websocket'], None):
            for hb in ([1.0, 1.0], [2.0, 1.0]):
                base_p = {'client': c, 'server': s, 'transports': tr, 'heartbeat': hb}
                for n in BURSTS:
                    if hb == [2.0, 1.0] and n not in (2, 17):
                        continue
                    ps.append(dict(base_p, c2s=n, s2c=0, atonce=True))
                    ps.append(dict(base_p, c2s=0, s2c=n, atonce=True))
                ps.append(dict(base_p, c2s=0, s2c=0, idle=6))
                if hb == [1.0, 1.0]:
                    # differently configured servers existed in the process before this one
                    ps.append(dict(base_p, c2s=2, s2c=2, neighbour=True))
                if hb == [1.0, 1.0]:
                    ps.append(dict(base_p, c2s=2, s2c=2, idle=2, connect_again=True, disconnect='client'))
                if hb == [1.0, 1.0]:
                    # the server's connect handler greets the session before it is established
                    ps.append(dict(base_p, c2s=1, s2c=2, greet=True))
                if hb == [1.0, 1.0] and tr != ['polling']:
                    # a burst from the server during which one WebSocket write fails, then one more send
                    for k in (0, 1, 2):
                        ps.append(dict(base_p, c2s=0, s2c=4, atonce=True, fault=k))
                if hb == [1.0, 1.0]:
                    # one message of every payload shape in each direction, one at a time and as one batch
                    ps.append(dict(base_p, c2s=len(ZOO), s2c=len(ZOO), zoo=True))
                    ps.append(dict(base_p, c2s=len(ZOO), s2c=len(ZOO), zoo=True, atonce=True))
                if hb == [1.0, 1.0]:
                    ps.append(dict(base_p, c2s=3, s2c=3))
                    ps.append(dict(base_p, c2s=17, s2c=17, atonce=True))
                    for who in ('client', 'server'):
                        ps.append(dict(base_p, c2s=2, s2c=2, disconnect=who))
                        ps.append(dict(base_p, c2s=1, s2c=1, idle=2, disconnect=who))
                        # a full batch (and one more) in flight, then a hang-up half a heartbeat later
                        ps.append(dict(base_p, c2s=0, s2c=17, atonce=True, idle=0.5, disconnect=who))
                        ps.append(dict(base_p, c2s=16, s2c=16, atonce=True, idle=0.5, disconnect=who))
    # a heartbeat slower than every timeout the client uses on its own (the threaded client's request_timeout is 5 s): the idle
    # connection lasts, upgraded or opened over WebSocket
    for c, s in pairs:
        for tr in (None, ['websocket'], ['polling']):
            ps.append({'client': c, 'server': s, 'transports': tr, 'heartbeat': [6.0, 1.0], 'c2s': 1, 's2c': 1, 'idle': 2})
    return ps


def latency_list(ctx, pairs):
    """Conversations over a network with a one-way delay: the handshake and the upgrade take time, so heartbeats fall
    inside them, PONGs arrive late (but within ping_timeout) and bursts are in flight while the peer acts.

    A PING emitted while an upgrade is in progress is held by the server until the upgrade completes, and its timeout
    runs from the emission; the settings keep (duration of the handshake + one round trip) = 6 delays within
    ping_timeout (four on polling-only connections, where a PING may have to wait for the next poll), so that the PONG of the
    peer is always within ping_timeout of the emission of the PING."""
    ps = []
    lats = (0.125, 0.25, 0.375) if ctx.quick else (0.0625, 0.125, 0.1875, 0.25, 0.3125, 0.375, 0.4375)
    for c, s in pairs:
        combos = []
        for hb in ([1.0, 1.0], [2.0, 1.0]):
            combos += [(['websocket'], hb, lat) for lat in lats]
            # on polling a PING can fall due just after a poll was answered: it then waits a round trip for the next poll
            # and its PONG needs another, so four delays must stay within ping_timeout
            combos += [(['polling'], hb, lat) for lat in lats if 4 * lat <= hb[1]]
        combos += [(['polling'], [1.0, 3.0], lat) for lat in lats if 4 * lat > 1.0]
        for hb, ls in (([1.0, 1.0], (0.0625, 0.125)), ([0.5, 1.0], (0.0625, 0.125)), ([0.75, 1.0], (0.125,)),
                       ([1.0, 3.0], (0.25, 0.375)), ([2.0, 3.0], (0.375, 0.4375))):
            combos += [(None, hb, lat) for lat in ls]
        for tr, hb, lat in combos:
            base_p = {'client': c, 'server': s, 'transports': tr, 'heartbeat': hb, 'latency': lat}
            ps.append(dict(base_p, c2s=0, s2c=0, idle=5))
            if hb[0] <= 1.0:
                ps.append(dict(base_p, c2s=2, s2c=2))
                ps.append(dict(base_p, c2s=17, s2c=17, atonce=True))
                for who in ('client', 'server'):
                    ps.append(dict(base_p, c2s=1, s2c=1, idle=2, disconnect=who))
            # sends issued while the handshake / upgrade is still under way
            if lat <= 0.25:
                ps.append(dict(base_p, settle=3, c2s=2, s2c=2, idle=3))
    return ps


def deviation_list(ctx, pairs):
    ps = []
    for c, s in pairs:
        for tr in (['polling'], ['websocket'], None):
            base_p = {'client': c, 'server': s, 'transports': tr, 'heartbeat': [1.0, 1.0]}
            ps.append(dict(base_p, c2s=2, s2c=1))
            for who in ('client', 'server'):
                ps.append(dict(base_p, c2s=1, s2c=1, disconnect=who))
    return ps


def _short(choices):
    t = ''.join(map(str, choices))
    return t if len(t) <= 90 else t[:90] + '...(%d points)' % len(t)


def run(ctx):
    rep = report.Report('C10', 'model_checking')
    allpairs = [(c, s) for c in ('sync', 'async') for s in ('sync', 'async')]
    same = [('sync', 'sync'), ('async', 'async')]
    p0 = param_list(ctx, allpairs)
    small = deviation_list(ctx, same if ctx.quick else allpairs)
    st = core.Stats()
    viols = []
    samples = []
    gate = {'replayed': 0, 'mismatches': 0}
    plat = latency_list(ctx, allpairs)
    searches = [(p0, 0), (plat, 0), (small, 1)]
    if not ctx.quick:
        # two preemptions (free switching) where every actor is a task of one loop; with threads on either side the
        # second deviation is out of reach (one threaded scenario alone exceeds 15 minutes) and the bound stays at one
        searches.append(([dict(q, _free_switch=True) for q in small if q['client'] == q['server'] == 'async'], 2))
        # one deviation also over a delayed network
        searches.append(([dict(q, latency=0.125) for q in small if q['client'] == q['server']], 1))
        # one deviation on the larger conversations of every pair: a full batch and one more in either direction, an exchange
        # around a rejected second connect(), greetings from the connect handler, a hang-up after two idle heartbeat cycles
        medium = []
        for c, s_ in allpairs:
            for tr in (['polling'], ['websocket'], None):
                base_p = {'client': c, 'server': s_, 'transports': tr, 'heartbeat': [1.0, 1.0]}
                medium += [dict(base_p, c2s=17, s2c=0, atonce=True), dict(base_p, c2s=0, s2c=17, atonce=True),
                           dict(base_p, c2s=2, s2c=2, connect_again=True), dict(base_p, c2s=1, s2c=2, greet=True),
                           dict(base_p, c2s=3, s2c=3)]
                medium += [dict(base_p, c2s=1, s2c=1, idle=2, disconnect=who) for who in ('client', 'server')]
        searches.append((medium, 1))
    for plist, bound in searches:
        s1, v1, sm, g1 = core.run_search(Interop, plist, bound, ctx.workers, ctx.seed)
        st.merge(s1)
        viols += v1
        samples += sm[:2]
        gate['replayed'] += g1['replayed']
    for v in viols:
        pr = v['params']
        sig = dict(v['sig'])
        sig.pop('n', None)
        rep.add(report.Violation(
            dict({'impl': '%s-client/%s-server' % (pr['client'], pr['server']), 'kind': v['kind']}, **sig),
            '[%s client -> %s server, transports=%r heartbeat=%r c2s=%d s2c=%d idle=%s disconnect=%s] %s  (choices=%s)'
            % (pr['client'], pr['server'], pr['transports'], pr['heartbeat'], pr['c2s'], pr['s2c'], pr.get('idle', 0),
               pr.get('disconnect'), v['text'], _short(v['choices'])),
            {'params': pr, 'choices': v['choices']}, weight=(v['dev'], len(v['choices']))))
    rep.coverage = {
        'states': len(st.outcomes), 'transitions': st.points, 'traces_validated_against_impl': st.executions,
        'samples': samples[:4],
        'evaluations': st.executions, 'distinct_nontrivial': len(st.outcomes),
        'rule': '2x2 client/server pairs x transports {[polling],[websocket],both} x heartbeat {(1,1),(2,1)} x conversations: one-directional '
                'bursts of %r sends with text/JSON/binary payloads, one message of each of %d payload shapes (empty text / dict / list / bytes, nested empties, Unicode, separators, floats, 40-byte binary) in each direction, a 3+3 exchange, an exchange preceded by three greetings sent from inside the connect handler of the server, an idle period of 6 heartbeat cycles with a lasso check, '
                'and disconnect by either side right after an exchange or after 2 idle cycles. The two applications are parallel scripts: '
                'the same conversations over a virtual network with one-way delays of 1/16 .. 7/16 s (heartbeat settings chosen so that heartbeats fall inside the handshake and the upgrade while six delays stay within ping_timeout); all interleavings everywhere; one deviation for the small conversations of the %s pairs (thorough: also over a delayed network, one deviation for seven larger conversations - full batches, a rejected second connect(), greetings, hang-up after idle cycles - of every pair, and two deviations with free switching for the asyncio/asyncio pair). states = distinct (scenario, both '
                'event logs) digests.' % (BURSTS, len(ZOO), 'same-kind' if ctx.quick else 'all'),
        'exhaustive': True, 'bound_completed': 1, 'caps_hit': st.caps,
        'bound_completed_async_pair': 1 if ctx.quick else 2,
        'executions_by_deviations': {str(k): v for k, v in sorted(st.by_dev.items())},
        'scenarios': len(p0) + len(small) + len(plat), 'latency_scenarios': len(plat), 'determinism_gate': gate,
    }
    rep.assumptions = [
        'the network between the two real implementations is virtual: requests and frames are handed to the WSGI/ASGI gateway in order and without loss, in zero time or after a fixed one-way delay (round trip below ping_timeout)',
        'client-side handler order is judged at dispatch (message handlers are background tasks)',
        '"indefinitely": the idle phase runs 6 heartbeat cycles and the state digest must recur between consecutive cycles',
    ]
    return rep


def replay(ctx, payload):
    r = report.unbytes(payload['replay'])
    ex = core.execute(Interop, r['params'], r['choices'], want_labels=True)
    for lab in ex.labels[:200]:
        print('  ', lab)
    print('observation:', ex.obs)
    for v in ex.violations:
        print('REPLAY VIOLATION:', v)
    return 1 if ex.violations else 0
