"""C17 Session ids are unique, URL-safe and unguessable.

Exhaustive enumeration of windows of consecutively issued ids from the real
generate_id() under adversarial stand-ins for the OS random source.
"""
import base64
import os
import re
import secrets

from vf import report
from vf.explore import parallel

ID_RE = re.compile(r'^[A-Za-z0-9_-]{20}$')
WRAP = 1 << 24


class Source:
    """Stand-in for the OS random source; records what was requested."""
    def __init__(self, kind):
        self.kind = kind
        self.calls = 0
        self.last = None
        self.issued = 0

    def token_bytes(self, n=None):
        if n is None:
            n = 32
        self.calls += 1
        k = self.kind
        if k == 'zero':
            b = b'\x00' * n
        elif k == 'ff':
            b = b'\xff' * n
        elif k == 'pattern':
            b = (b'\x3e\x3f\xfb\xef\xbe' * n)[:n]    # bytes that map to '+' and '/' in base64
        elif k == 'period2':
            b = (b'\xaa' if self.issued % 2 else b'\x55') * n
        elif k == 'anti':
            # tries to cancel a counter: low bytes run backwards with the issue index
            v = (-self.issued) % (1 << (8 * n)) if n else 0
            b = v.to_bytes(n, 'big')
        else:
            raise AssertionError(k)
        self.last = b
        self.got.append(b)
        return b

    def urandom(self, n):
        return self.token_bytes(n)


def _make_server(cls):
    import engineio
    if cls == 'sync':
        return engineio.Server(async_mode='threading', logger=_quiet())
    return engineio.AsyncServer(async_mode='asgi', logger=_quiet())


def _quiet():
    import logging
    lg = logging.getLogger('vf.c17')
    lg.setLevel(logging.CRITICAL)
    return lg


def run_window(cls, kind, start, count, exact):
    """Issue `count` ids from counter `start`. Returns (violations, stats)."""
    srv = _make_server(cls)
    src = Source(kind)
    out = []
    natural = (start == 0)
    if not natural:
        if not hasattr(srv, 'sequence_number'):
            return out, {'issued': 0, 'skipped': 1}
        srv.sequence_number = start
    orig = (secrets.token_bytes, os.urandom)
    secrets.token_bytes = src.token_bytes
    os.urandom = src.urandom
    seen_exact = set() if exact else None
    bitmaps = {}
    stats = {'issued': 0, 'skipped': 0, 'min_bytes': None}
    try:
        gen = srv.generate_id
        for i in range(count):
            src.issued = i
            src.got = []
            sid = gen()
            stats['issued'] += 1
            if not isinstance(sid, str) or not ID_RE.match(sid):
                out.append(_viol('bad_shape', cls, kind, start, i, 'id %r is not 20 chars of [A-Za-z0-9_-]' % (sid,)))
                break
            raw = base64.urlsafe_b64decode(sid)
            nbytes = sum(len(b) for b in src.got)
            if stats['min_bytes'] is None or nbytes < stats['min_bytes']:
                stats['min_bytes'] = nbytes
            if nbytes < 12:
                out.append(_viol('too_little_entropy', cls, kind, start, i,
                                 'issue requested %d bytes from the OS source (< 12)' % nbytes))
                break
            blob = b''.join(src.got)
            pos = raw.find(blob[:12]) if len(blob) >= 12 else -1
            if pos < 0:
                out.append(_viol('entropy_not_embedded', cls, kind, start, i,
                                 'id %r does not embed 96 bits of the bytes returned by the OS source' % sid))
                break
            if exact:
                if sid in seen_exact:
                    out.append(_viol('duplicate_id', cls, kind, start, i, 'id %r issued twice within %d issues' % (sid, i + 1)))
                    break
                seen_exact.add(sid)
            elif kind != 'anti':
                rest = raw[:pos] + raw[pos + 12:]
                key = blob[:12]
                bm = bitmaps.get(key)
                if bm is None:
                    if len(bitmaps) > 4:
                        raise report.HarnessError('source has too many values for the bitmap method')
                    bm = bitmaps[key] = bytearray(1 << 24) if len(rest) == 3 else set()
                if isinstance(bm, bytearray):
                    idx = int.from_bytes(rest, 'big')
                    if bm[idx]:
                        out.append(_viol('duplicate_id', cls, kind, start, i, 'id %r issued twice within %d issues' % (sid, i + 1)))
                        break
                    bm[idx] = 1
                else:
                    if rest in bm:
                        out.append(_viol('duplicate_id', cls, kind, start, i, 'id %r issued twice within %d issues' % (sid, i + 1)))
                        break
                    bm.add(rest)
    finally:
        secrets.token_bytes, os.urandom = orig
    return out, stats


def _viol(kind_v, cls, src, start, i, text):
    return report.Violation(
        {'impl': cls, 'kind': kind_v, 'trigger': 'source=' + src},
        '%s [server=%s source=%s start=%#x issue#%d]' % (text, cls, src, start, i),
        {'cls': cls, 'source': src, 'start': start, 'count': i + 1}, weight=(0, i))


def sibling_wrap(ca, cb):
    """Server A issues one id, a sibling instance B issues 2^24 - 1 ids, A issues its second id: with a constant random
    source A's two consecutive ids must still differ (no state shared between instances)."""
    out = []
    a, b = _make_server(ca), _make_server(cb)
    src = Source('zero')
    orig = (secrets.token_bytes, os.urandom)
    secrets.token_bytes = src.token_bytes
    os.urandom = src.urandom
    try:
        src.got = []
        first = a.generate_id()
        gen = b.generate_id
        for _ in range(WRAP - 1):
            gen()
        src.got = []
        second = a.generate_id()
        if first == second:
            out.append(_viol('duplicate_id', 'two', 'zero', 0, 1,
                             'a %s server issued %r twice in a row while a sibling %s instance issued 2^24-1 ids in between '
                             '(state shared between instances)' % (ca, first, cb)))
    finally:
        secrets.token_bytes, os.urandom = orig
    return out, {'issued': WRAP + 1, 'skipped': 0, 'min_bytes': None}


def handshake_ids(out):
    """Ids as clients receive them: whatever a handshake request carries (a session cookie from an earlier or a forged
    session, a sid-like query value), the session gets a fresh id from generate_id()."""
    from vf.vworld import peer
    n = 0
    for impl in ('sync', 'async'):
        for cookie in (None, 'io', {'name': 'sess', 'path': '/'}):
            w = peer.make_world(impl, server_kwargs=dict(cookie=cookie))
            try:
                name = 'io' if not isinstance(cookie, dict) else cookie['name']
                first = peer.sid_of(peer.open_polling(w))
                if first is None:
                    out.append(_viol('bad_shape', impl, 'handshake', 0, 0, 'server(cookie=%r): the first handshake was not answered with an OPEN packet' % (cookie,)))
                    continue
                peer.post(w, first, '1')
                w.http('GET', peer.BASEQ + '&sid=' + first)      # lets the server reap the closed entry
                w.run()
                seen = [first]
                for label, hdrs, extra in (('the cookie of an ended session', {'Cookie': '%s=%s' % (name, first)}, ''),
                                           ('a forged cookie', {'Cookie': '%s=%s' % (name, 'A' * 20)}, ''),
                                           ('two cookies', {'Cookie': 'other=1; %s=%s' % (name, 'B' * 20)}, ''),
                                           ('a forged cookie and a stray query value', {'Cookie': '%s=%s' % (name, 'C' * 20)}, '&id=' + 'C' * 20)):
                    r = w.http('GET', peer.BASEQ + extra, headers=hdrs)
                    w.run()
                    sid = peer.sid_of(r)
                    n += 1
                    presented = hdrs['Cookie'].split('=')[-1]
                    if sid is None:
                        continue
                    if sid == presented or sid in seen or not ID_RE.match(sid):
                        out.append(_viol('id_taken_from_request', impl, 'handshake', 0, n,
                                         'server(cookie=%r): a handshake presenting %s was given the id %r (ids so far %r) - an id chosen by '
                                         'the requester / issued before, not a fresh one' % (cookie, label, sid, seen)))
                    seen.append(sid)
            finally:
                w.teardown()
    return n


def handshake_counter(out):
    """Accepted and rejected handshakes interleaved, with a constant random source: the ids shown to the connect handler -
    of accepted and of rejected connections alike - are pairwise distinct (a counter value is never issued twice)."""
    from vf.vworld import peer
    from vf.checks.c12_admission import RejectOnHeader
    n = 0
    for impl in ('sync', 'async'):
        for pattern in ('ara', 'raa', 'arra', 'aarar', 'rrra', 'asa', 'aasaa', 'arsara'):
            w = peer.make_world(impl, behaviour=RejectOnHeader())
            src = Source('zero')
            orig = (secrets.token_bytes, os.urandom)
            secrets.token_bytes = src.token_bytes
            os.urandom = src.urandom
            import engineio.base_server as _bs
            shim = _bs.secrets           # inside a virtual world the server draws from the world's deterministic source
            _bs.secrets = src
            try:
                src.got = []
                for ch in pattern:
                    if ch == 's':
                        # the application shuts the server down (its background tasks end) and goes on using the same object
                        w.call('shutdown')
                        w.run()
                        continue
                    w.http('GET', peer.BASEQ, headers={'X-Reject': '1'} if ch == 'r' else {})
                    w.run()
                    n += 1
                ids = [e[1] for e in w.events if e[0] == 'connect']
                if len(set(ids)) != len(ids) or len(ids) != len(pattern.replace('s', '')):
                    out.append(_viol('duplicate_id', impl, 'zero', 0, len(ids),
                                     'handshakes %s (a = accepted, r = rejected by the connect handler, s = shutdown() of the server), constant random source: the '
                                     'connect handler was given the ids %r' % (pattern, ids)))
            finally:
                secrets.token_bytes, os.urandom = orig
                _bs.secrets = shim
                w.teardown()
    return n


def _work(chunk):
    res = []
    for (cls, kind, start, count, exact) in chunk:
        if cls.startswith('sibling:'):
            out, st = sibling_wrap(*cls.split(':')[1:])
            res.append(([v.to_json() for v in out], st, (cls, kind, start, count, exact)))
            continue
        out, st = run_window(cls, kind, start, count, exact)
        res.append(([v.to_json() for v in out], st, (cls, kind, start, count, exact)))
    return res


def two_instances(out):
    """Two servers issuing alternately: each must stay internally distinct."""
    a, b = _make_server('sync'), _make_server('async')
    src = Source('zero')
    orig = (secrets.token_bytes, os.urandom)
    secrets.token_bytes = src.token_bytes
    os.urandom = src.urandom
    try:
        sa, sb = set(), set()
        for i in range(1 << 12):
            src.issued = i
            src.got = []
            x = a.generate_id()
            y = b.generate_id()
            if x in sa or y in sb:
                out.append(_viol('duplicate_id', 'two', 'zero', 0, i, 'duplicate with two server instances'))
                break
            sa.add(x)
            sb.add(y)
        n = 0
    finally:
        secrets.token_bytes, os.urandom = orig
    return (2 << 12) + n


def successor_structure(cls, out):
    """With a constant random source, the id issued after the one of counter c is the id of counter c+1 - checked at every
    power-of-two boundary of the 24-bit counter (a shorter period shows as a wrong successor there)."""
    n = 0
    srv = _make_server(cls)
    if not hasattr(srv, 'sequence_number'):
        return 0
    src = Source('zero')
    orig = (secrets.token_bytes, os.urandom)
    secrets.token_bytes = src.token_bytes
    os.urandom = src.urandom
    try:
        src.got = []
        for k in range(1, 25):
            for c in ((1 << k) - 1, (1 << k) - 2, (3 << (k - 1)) - 1 if k < 24 else 0):
                c &= WRAP - 1
                a, b = _make_server(cls), _make_server(cls)
                a.sequence_number = c
                a.generate_id()
                nxt = a.generate_id()
                b.sequence_number = (c + 1) % WRAP
                want = b.generate_id()
                n += 3
                if nxt != want:
                    out.append(_viol('counter_period_short', cls, 'zero', c, 1,
                                     'the id issued after counter %#x is %r; the id of counter %#x is %r - the counter does not '
                                     'advance by one there (period shorter than 2^24)' % (c, nxt, (c + 1) % WRAP, want)))
                    return n
    finally:
        secrets.token_bytes, os.urandom = orig
    return n


def wrap_alignment(cls, out):
    """The id stream must pass through all 2^24 counter values: with a constant random source the ids
    issued from counter W-k (k = 1..4) must reach the id of counter 0 after exactly k issues, and never before."""
    n = 0
    for k in (1, 2, 3, 4):
        srv = _make_server(cls)
        if not hasattr(srv, 'sequence_number'):
            return 0
        src = Source('zero')
        orig = (secrets.token_bytes, os.urandom)
        secrets.token_bytes = src.token_bytes
        os.urandom = src.urandom
        try:
            src.got = []
            srv.sequence_number = 0
            first = [srv.generate_id() for _ in range(3)]
            srv.sequence_number = WRAP - k
            run = [srv.generate_id() for _ in range(k + 3)]
            n += k + 6
            if run[k:k + 3] != first or any(x in first for x in run[:k]) or len(set(run)) != len(run):
                out.append(_viol('counter_period_short', cls, 'zero', WRAP - k, k,
                                 'ids from counter 2^24-%d: %r; ids from counter 0: %r - the stream does not pass through all 2^24 counter '
                                 'values, so two ids less than 2^24 issues apart coincide when the random source repeats' % (k, run, first)))
        finally:
            secrets.token_bytes, os.urandom = orig
    return n


def run(ctx):
    rep = report.Report('C17', 'exploration')
    jobs = []
    starts = [0, 1, 0x7fffff, 0xfffffe, 0xffffff]
    if ctx.quick:
        win = 1 << 18
        for cls in ('sync', 'async'):
            for kind in ('zero', 'ff', 'pattern', 'period2', 'anti'):
                for s in starts:
                    s0 = (s - win // 2) % WRAP if s not in (0, 1) else s
                    jobs.append((cls, kind, s0, win, True))
        # every value of each counter byte with the other two at 00/7f/ff: short windows there
        for byte in range(3):
            for other in (0x00, 0x7f, 0xff):
                vals = []
                for v in range(256):
                    c = 0
                    for j in range(3):
                        c = (c << 8) | (v if j == byte else other)
                    vals.append(c)
                for c in vals[::8]:
                    jobs.append(('sync', 'zero', c, 512, True))
    else:
        win = WRAP
        for kind in ('zero', 'ff', 'period2'):
            for s in starts:
                jobs.append(('sync', kind, s, win, False))
        jobs.append(('sync', 'zero', 0, WRAP + (1 << 18), False))     # natural start, crosses the wrap; duplicates expected only after 2^24
        jobs.append(('async', 'zero', 0xfffffe, win, False))
        for kind in ('pattern', 'anti'):
            for s in starts:
                jobs.append(('sync', kind, (s - (1 << 19)) % WRAP, 1 << 20, True))
    jobs.append(('sibling:sync:async', 'zero', 0, WRAP, True))
    if not ctx.quick:
        jobs += [('sibling:sync:sync', 'zero', 0, WRAP, True), ('sibling:async:async', 'zero', 0, WRAP, True)]
    # the natural-start job longer than 2^24 legitimately repeats after the wrap: cap it at 2^24
    jobs = [(c, k, s, min(n, WRAP), e) for (c, k, s, n, e) in jobs]
    res = parallel.pmap_chunks(_work, parallel.split(jobs, max(ctx.workers, len(jobs) // 4 or 1)), ctx.workers, ctx.seed)
    issued = 0
    skipped = 0
    minb = None
    windows = 0
    for chunk in res:
        for vs, st, job in chunk:
            windows += 1
            issued += st['issued']
            skipped += st.get('skipped', 0)
            if st.get('min_bytes') is not None:
                minb = st['min_bytes'] if minb is None else min(minb, st['min_bytes'])
            for v in vs:
                rep.add(report.Violation.from_json(v))
    out = []
    issued += two_instances(out)
    for cls in ('sync', 'async'):
        issued += wrap_alignment(cls, out)
        issued += successor_structure(cls, out)
    issued += handshake_ids(out)
    issued += handshake_counter(out)
    for v in out:
        rep.add(v)
    if skipped:
        rep.notes.append('%d windows skipped: server has no sequence_number attribute to start from' % skipped)
    rep.coverage = {
        'evaluations': issued,
        'distinct_nontrivial': windows,
        'rule': 'windows of consecutively issued ids from the real generate_id() of Server and AsyncServer, '
                'with secrets.token_bytes / os.urandom replaced by adversarial sources {all-zero, all-ff, '
                'base64-special pattern, period-2, counter-cancelling}; a successor test at every power-of-two boundary of the counter (the id after counter c is the id of counter c+1); a wrap-alignment test (ids from counter 2^24-k reach the id of counter 0 after exactly k issues); handshakes that present the cookie of an ended session / a forged cookie to servers configured with and without a session cookie (the id must be fresh); accepted and rejected handshakes interleaved under a constant source (no id shown to the connect handler twice); sibling instances (server A issues an id, another instance issues 2^24-1 ids, the next id of A must differ); starts %s (quick: windows of 2^18 centred on '
                'them plus 512-id windows at every 8th value of each counter byte; thorough: full 2^24 windows). '
                'distinct_nontrivial counts windows (source x start x server class).' % [hex(s) for s in starts],
        'samples': [{'server': 'sync', 'source': 'zero', 'start': '0xfe0000', 'count': 1 << 18},
                    {'server': 'async', 'source': 'anti', 'start': '0x1', 'count': 1 << 18}],
        'exhaustive': True,
        'windows': windows, 'ids_issued': issued, 'min_bytes_requested_per_issue': minb,
    }
    rep.assumptions = [
        'the operating system source behind secrets.token_bytes is a CSPRNG (not a finite-state question)',
        'non-natural start counters are installed by assigning BaseServer.sequence_number on the instance',
    ]
    return rep


def replay(ctx, payload):
    r = payload['replay']
    out, st = run_window(r['cls'] if r['cls'] in ('sync', 'async') else 'sync', r['source'], r['start'], r['count'], True)
    for v in out:
        print('REPLAY VIOLATION:', v.text)
    print('replayed %d issues; violations=%d' % (st['issued'], len(out)))
    return 1 if out else 0
