"""C19 Response transformations (compression, JSONP) are lossless and well
labelled.

Bounded-exhaustive enumeration of message payloads x JSONP index, and of
Accept-Encoding shapes x compression settings x thresholds around the body
size, through the real servers; the oracle undoes the declared encoding and
evaluates the JSONP body by ECMAScript string-literal rules.
"""
import gzip
import itertools
import zlib

from vf import report
from vf.explore import parallel
from vf.models import codec, jsonp
from vf.vworld import peer

ALPHA = ['a', '"', '\\', '\n', '\r', ' ', ' ', '\x00', '\x1e', "'", '/', '<',
         '\U0001F600', 'é']
AE = [None, 'gzip', 'deflate', 'gzip, deflate', 'deflate, gzip', 'gzip;q=0.5', 'br',
      'br, gzip', '  gzip  ', 'identity', 'deflate ;q=1.0, br', 'GZIP', 'gzipx', '']


def offered(ae, enc):
    if ae is None:
        return False
    for tok in ae.split(','):
        if tok.split(';')[0].strip().lower() == enc:
            return True
    return False


def judge(req, expected_text, j, ae, compression, threshold):
    """Returns list of (kind, text)."""
    out = []
    if req.exc:
        return [('exception_escaped', 'poll raised %s at %s' % (req.exc['type'], req.exc['site']))]
    if not req.done or req.status != 200:
        return [('poll_failed', 'poll done=%s status=%r' % (req.done, req.status))]
    ces = req.headers_all('Content-Encoding')
    body = req.body
    if len(ces) > 1:
        return [('multiple_encodings', 'Content-Encoding %r' % ces)]
    if ces:
        enc = ces[0]
        try:
            if enc == 'gzip':
                plain = gzip.decompress(body)
            elif enc == 'deflate':
                plain = zlib.decompress(body)
            else:
                return [('unknown_encoding_declared', 'Content-Encoding %r' % enc)]
        except Exception as e:
            return [('declared_encoding_wrong', 'body does not decode as declared %r: %r' % (enc, e))]
        if not offered(ae, enc):
            out.append(('encoding_not_offered', 'declared %r, Accept-Encoding was %r' % (enc, ae)))
        if not compression:
            out.append(('compressed_though_disabled', 'declared %r with http_compression=False' % enc))
        if len(plain) < threshold:
            out.append(('compressed_below_threshold', 'declared %r for %d bytes, threshold %d' % (enc, len(plain), threshold)))
    else:
        plain = body
    try:
        text = plain.decode('utf-8')
    except UnicodeDecodeError:
        return out + [('undeclared_or_garbled_body', 'body is not UTF-8 text (undeclared compression?) %r' % plain[:30])]
    if j is not None:
        try:
            idx, val = jsonp.evaluate(text)
        except jsonp.BadScript as e:
            return out + [('jsonp_not_one_statement', 'script %r: %s' % (text[:80], e))]
        if idx != j:
            out.append(('jsonp_index_wrong', 'index %r, requested %r' % (idx, j)))
        text = val
    if text != expected_text:
        out.append(('payload_altered', 'client sees %r, packets carry %r' % (text[:80], expected_text[:80])))
    return out


def judge_ack(req, ae, compression, threshold, want_plain):
    """The body-less acknowledgements (POST 'OK', OPTIONS) go through the same compression step."""
    if req.exc or not req.done:
        return [('exception_escaped', 'request raised / unanswered: %r' % (req.exc,))]
    ces = req.headers_all('Content-Encoding')
    body = req.body or b''
    if len(ces) > 1:
        return [('multiple_encodings', 'Content-Encoding %r' % ces)]
    out = []
    if ces:
        enc = ces[0]
        try:
            plain = gzip.decompress(body) if enc == 'gzip' else zlib.decompress(body) if enc == 'deflate' else None
        except Exception as e:
            return [('declared_encoding_wrong', 'body %r does not decode as declared %r: %r' % (body[:20], enc, e))]
        if plain is None:
            return [('unknown_encoding_declared', 'Content-Encoding %r' % enc)]
        if not offered(ae, enc):
            out.append(('encoding_not_offered', 'declared %r, Accept-Encoding was %r' % (enc, ae)))
        if not compression:
            out.append(('compressed_though_disabled', 'declared %r with http_compression=False' % enc))
        if len(plain) < threshold:
            out.append(('compressed_below_threshold', 'declared %r for %d bytes, threshold %d' % (enc, len(plain), threshold)))
    else:
        plain = body
    if want_plain is not None and plain != want_plain:
        out.append(('payload_altered', 'acknowledgement body %r, want %r' % (plain[:20], want_plain)))
    return out


def run_group(group, out):
    """group: dict(impl, compression, threshold(s) spec, cases=[(payloads, j, ae)])."""
    impl = group['impl']
    n = 0
    kw = dict(http_compression=group['compression'], compression_threshold=group['threshold'])
    if group.get('buf'):
        kw['max_http_buffer_size'] = group['buf']      # a limit on what the server accepts, smaller than its responses
    w = peer.make_world(impl, server_kwargs=kw)
    try:
        r = peer.open_polling(w)
        sid = peer.sid_of(r)
        if sid is None:
            out.append(report.Violation({'impl': impl, 'kind': 'open_failed', 'trigger': 'open'},
                                        'open failed', {'group': group}))
            return 0
        for payloads, j, ae in group['cases']:
            for p in payloads:
                c = w.call('send', sid, p)
                w.run()
            expected = codec.ref_payload_encode([(4, p) for p in payloads])
            hdr = {} if ae is None else {'Accept-Encoding': ae}
            g = peer.poll(w, sid, extra='' if j is None else '&j=%d' % j, headers=hdr)
            n += 1
            for kind, text in judge(g, expected, j, ae, group['compression'], group['threshold']):
                trig = 'jsonp' if kind.startswith('jsonp') or (j is not None and kind == 'payload_altered') else 'encoding'
                out.append(report.Violation(
                    {'impl': impl, 'kind': kind, 'trigger': trig},
                    '[%s compression=%s threshold=%d j=%r AE=%r payload=%r] %s'
                    % (impl, group['compression'], group['threshold'], j, ae, payloads, text),
                    {'impl': impl, 'compression': group['compression'], 'threshold': group['threshold'], 'buf': group.get('buf'),
                     'case': [payloads, j, ae]}, weight=(0, sum(len(x) for x in payloads))))
            if not g.done:
                break
            if j is None:
                for what, req in (('POST', peer.post(w, sid, '4x', headers=hdr)), ('OPTIONS', w.http('OPTIONS', peer.BASEQ + '&sid=' + sid, headers=hdr))):
                    w.run()
                    n += 1
                    for kind, text in judge_ack(req, ae, group['compression'], group['threshold'], b'OK' if what == 'POST' else None):
                        out.append(report.Violation(
                            {'impl': impl, 'kind': kind, 'trigger': 'encoding_ack'},
                            '[%s compression=%s threshold=%d AE=%r %s acknowledgement] %s' % (impl, group['compression'], group['threshold'], ae, what, text),
                            {'impl': impl, 'compression': group['compression'], 'threshold': group['threshold'], 'buf': group.get('buf'),
                             'case': [payloads, j, ae]}, weight=(0, 1)))
        # a JSONP poll answered during an upgrade handshake (a lone NOOP), with and without compression on offer
        if sid in w.live_sids():
            up = peer.ws_upgrade(w, sid)
            w.ws_send(up, '2probe')
            w.run()
            for ae in (None, 'gzip'):
                hdr = {} if ae is None else {'Accept-Encoding': ae}
                g = peer.poll(w, sid, extra='&j=3', headers=hdr)
                n += 1
                for kind, text in judge(g, '6', 3, ae, group['compression'], group['threshold']):
                    out.append(report.Violation(
                        {'impl': impl, 'kind': kind, 'trigger': 'jsonp_mid_upgrade'},
                        '[%s compression=%s threshold=%d j=3 AE=%r poll during an upgrade handshake] %s'
                        % (impl, group['compression'], group['threshold'], ae, text),
                        {'impl': impl, 'compression': group['compression'], 'threshold': group['threshold'], 'buf': group.get('buf'),
                         'case': [[''], 3, ae]}, weight=(0, 1)))
        # a poll that is answered with no packets at all (released by the client's own CLOSE while it was waiting): the
        # client receives the payload of zero packets
        for j2 in (None, 6):
            for ae in (None, 'gzip'):
                sid2 = peer.sid_of(peer.open_polling(w))
                if sid2 is None:
                    break
                hdr = {} if ae is None else {'Accept-Encoding': ae}
                g = peer.poll(w, sid2, extra='' if j2 is None else '&j=%d' % j2, headers=hdr)
                if g.done:
                    continue
                peer.post(w, sid2, '1')
                w.run()
                if not (g.done and g.status == 200):
                    continue        # the asyncio server releases such a poll differently (C18 is not this property)
                n += 1
                for kind, text in judge(g, '', j2, ae, group['compression'], group['threshold']):
                    out.append(report.Violation(
                        {'impl': impl, 'kind': kind, 'trigger': 'empty_poll'},
                        '[%s compression=%s threshold=%d j=%r AE=%r poll released with no packets by the CLOSE the client posted] %s'
                        % (impl, group['compression'], group['threshold'], j2, ae, text),
                        {'impl': impl, 'compression': group['compression'], 'threshold': group['threshold'], 'buf': group.get('buf'),
                         'case': [[], j2, ae]}, weight=(0, 0)))
        # compression switched off on the running server (http_compression is a public attribute): from then on nothing is
        # compressed, whatever the threshold and the offer
        if group['compression']:
            sid4 = peer.sid_of(peer.open_polling(w))
            if sid4 is not None:
                w.server.http_compression = False
                try:
                    w.call('send', sid4, 'z' * (group['threshold'] + 40))
                    w.run()
                    g = peer.poll(w, sid4, headers={'Accept-Encoding': 'gzip, deflate'})
                    n += 1
                    for kind, text in judge(g, '4' + 'z' * (group['threshold'] + 40), None, 'gzip, deflate', False, group['threshold']):
                        out.append(report.Violation(
                            {'impl': impl, 'kind': kind, 'trigger': 'compression_switched_off'},
                            '[%s threshold=%d AE=gzip, deflate poll after http_compression was set to False on the running server] %s'
                            % (impl, group['threshold'], text),
                            {'impl': impl, 'compression': group['compression'], 'threshold': group['threshold'], 'buf': group.get('buf'),
                             'case': [[], None, 'gzip']}, weight=(0, 0)))
                finally:
                    w.server.http_compression = True
        # refusals pass the same compression step: a sequence of failing POSTs (each on a session of its own) with and
        # without compression on offer - each 400 decodes, by its own headers, to the refusal text
        for ae in ('gzip', None, 'deflate', 'gzip'):
            sid3 = peer.sid_of(peer.open_polling(w))
            if sid3 is None:
                break
            hdr = {} if ae is None else {'Accept-Encoding': ae}
            bad = peer.post(w, sid3, '9', headers=hdr)
            n += 1
            if bad.done and not bad.exc and bad.status != 400:
                continue        # (whether it is refused is C04's business)
            for kind, text in judge_ack(bad, ae, group['compression'], group['threshold'], b'"Bad Request"'):
                out.append(report.Violation(
                    {'impl': impl, 'kind': kind, 'trigger': 'encoding_refusal'},
                    '[%s compression=%s threshold=%d AE=%r refusal of a POST with an undefined packet type, in a sequence of such refusals] %s'
                    % (impl, group['compression'], group['threshold'], ae, text),
                    {'impl': impl, 'compression': group['compression'], 'threshold': group['threshold'], 'buf': group.get('buf'),
                     'case': [[], None, ae]}, weight=(0, 0)))
    finally:
        w.teardown()
    return n


def _work(chunk):
    out = []
    n = 0
    for g in chunk:
        try:
            n += run_group(g, out)
        except report.Livelock as e:
            out.append(report.livelock_violation(g['impl'], e, {'impl': g['impl'], 'compression': g['compression'],
                                                               'threshold': g['threshold'], 'case': list(g['cases'][0])}))
    return [v.to_json() for v in out[:200]], n, len(out)


def payload_strings(n):
    for k in range(0, n + 1):
        for t in itertools.product(ALPHA, repeat=k):
            yield ''.join(t)


def groups(ctx):
    gs = []
    n = 3 if ctx.quick else 4
    strs = list(payload_strings(n))
    # (A) JSONP escaping: every payload, j in {0, 99}, no compression
    for impl in ('sync', 'async'):
        for part in parallel.split(strs, 8 if ctx.quick else 48):
            cases = [([s], j, None) for s in part for j in (0, 99)]
            gs.append({'impl': impl, 'compression': False, 'threshold': 1024, 'cases': cases})
        extra = [([b'\x00\x01'], 1, None), (['a"b', b'\xff', {'k': '"\\\n'}], 5, None),
                 ([''], 0, None), ([{'a': [' ', '\\']}], 3, None), (['x' * 2000], 2, 'gzip')]
        gs.append({'impl': impl, 'compression': True, 'threshold': 1024, 'cases': extra})
    # (B) compression: sizes around each threshold x AE shapes x on/off x j
    for impl in ('sync', 'async'):
        for comp in (True, False):
            for L in (1, 2, 5, 64, 1024):
                for thr in (L - 1, L, L + 1, 0, 1024):
                    if thr < 0:
                        continue
                    cases = []
                    for ae in AE:
                        for j in (None, 1):
                            # body is '4' + 'a'*(L-1): exactly L bytes without JSONP
                            cases.append((['a' * (L - 1)], j, ae))
                            cases.append((['é' * max(0, (L - 1) // 2)], j, ae))
                    gs.append({'impl': impl, 'compression': comp, 'threshold': thr, 'cases': cases})
    # an inbound size limit below the compression threshold has no say in what is compressed
    for impl in ('sync', 'async'):
        for L, thr, buf in ((64, 1024, 32), (200, 256, 100), (300, 256, 100)):
            cases = [(['a' * (L - 1)], j, ae) for ae in ('gzip', 'deflate, gzip') for j in (None, 1)]
            gs.append({'impl': impl, 'compression': True, 'threshold': thr, 'buf': buf, 'cases': cases})
    return gs


def run(ctx):
    rep = report.Report('C19', 'exploration')
    gs = groups(ctx)
    res = parallel.pmap_chunks(_work, parallel.split(gs, ctx.workers * 4), ctx.workers, ctx.seed, maxtasks=8)
    n = 0
    nv = 0
    for vs, k, m in res:
        n += k
        nv += m
        for v in vs:
            rep.add(report.Violation.from_json(v))
    rep.coverage = {
        'evaluations': n,
        'distinct_nontrivial': n,
        'rule': 'every message string of length <= %d over the %d-symbol alphabet %r x JSONP index {0,99}; '
                'binary / JSON / multi-packet responses; bodies of exactly L bytes for L in {1,2,5,64,1024} x '
                'threshold in {L-1,L,L+1,0,1024} x %d Accept-Encoding shapes x http_compression on/off x '
                '{plain, JSONP}, each plain poll followed by a POST and an OPTIONS with the same Accept-Encoding on the same server (their acknowledgements pass the same compression step); on Server (WSGI) and AsyncServer (ASGI). Every case is a distinct '
                '(configuration, request, payload) triple.' % (3 if ctx.quick else 4, len(ALPHA), ALPHA, len(AE)),
        'samples': [{'payload': 'a"\\\n', 'j': 0}, {'payload': ' ', 'j': 99},
                    {'L': 64, 'threshold': 64, 'Accept-Encoding': 'deflate, gzip', 'compression': True}],
        'exhaustive': True,
        'violating_cases_total': nv,
    }
    rep.assumptions = [
        'U+2028/U+2029 are legal raw inside string literals (ES2019); raw LF/CR and unescaped backslashes are not',
        'an encoding counts as offered when its token appears in Accept-Encoding case-insensitively, q-values are ignored (q=0 is not in the alphabet)',
        'the oracle is one-directional for compression (declared => offered, enabled, size >= threshold; undeclared => plain)',
    ]
    return rep


def replay(ctx, payload):
    r = report.unbytes(payload['replay'])
    out = []
    g = {'impl': r['impl'], 'compression': r['compression'], 'threshold': r['threshold'], 'buf': r.get('buf'),
         'cases': [tuple(r['case'])] if r['case'][0] else []}      # no payloads: the epilogue probes of run_group alone
    run_group(g, out)
    for v in out:
        print('REPLAY VIOLATION:', v.text)
    print('replayed; violations=%d' % len(out))
    return 1 if out else 0
