"""C05 Session events: connect first, one disconnect with the true reason, none
after.

Stateless deviation-bounded schedule search on the real servers: one to two
end causes (client CLOSE by POST or frame, disconnect(sid), disconnect(),
protocol error, oversize POST, socket closed by the peer, a send after the
heartbeat deadline, silence) run as parallel scripts against a session with a
bystander, under every interleaving and up to D deviations, for five
disconnect-handler behaviours (record, raise, yield, re-enter disconnect,
re-enter send); then a suffix of late traffic and virtual time. Monitor: the
per-session event automaton.
"""
import itertools

from vf import report
from vf.explore import core
from vf.vworld import base, peer

INTERVAL = 2.0
TIMEOUT = 1.0
REASONS = {
    'post_close': ['client disconnect'], 'frame_close': ['client disconnect'],
    'api_disc': ['server disconnect'], 'api_disc_all': ['server disconnect'],
    'post_bad': ['server disconnect', 'transport error'],
    'post_oversize': ['server disconnect', 'transport error'],
    'peer_close': ['transport close'],
    'send_late': ['ping timeout', 'transport close', 'transport error'],
    'silence': ['ping timeout', 'transport close', 'transport error'],
    'post_msg': [], 'frame_msg': [],
    'send_fault': ['transport close', 'transport error'],
    # the gateway cancels the task of the pending long-poll (the client hung up): a failure of the transport
    'poll_cancel': ['transport close', 'transport error'],
    # the gateway cancels the task of the POST that carried the CLOSE packet (the client hung up without waiting for the answer),
    # possibly while the application's disconnect handler is suspended: the session still ends, once, and is cleaned up
    'post_cancel': [],
}
TIMED = ['ping timeout', 'transport close', 'transport error']
POLLING_CAUSES = ['post_close', 'api_disc', 'api_disc_all', 'post_bad', 'post_oversize', 'send_late', 'silence']
WS_CAUSES = ['frame_close', 'api_disc', 'api_disc_all', 'peer_close', 'send_late', 'silence', 'send_fault']
DH = ['record', 'raise', 'yield', 'reenter_disconnect', 'reenter_send']      # plus 'sleep' in the racing-message scenarios


class Beh(base.Behaviour):
    def __init__(self, dh, mh):
        self.dh = dh
        self.mh = mh

    def connect(self, sid, environ):
        if environ.get('HTTP_X_REJECT') == 'type':
            return [('raise_type',)]          # an application bug of the TypeError kind: still a rejection
        if environ.get('HTTP_X_REJECT'):
            return [('return', False)]
        return []

    def message(self, sid, data):
        if self.mh == 'raise':
            return [('raise', 'message handler failure')]
        return []

    def disconnect(self, sid, reason):
        self.__dict__.setdefault('entered', set()).add(sid)
        if self.dh == 'raise_type_once':
            # an application bug (TypeError) inside the handler, for the first session that ends only
            if not getattr(self, '_raised', False):
                self._raised = True
                return [('raise_type',)]
            return []
        if self.dh == 'kick_other':
            # the handler of the first session that ends disconnects another live session
            if not getattr(self, '_kicked', False) and self.other.get(sid):
                self._kicked = True
                return [('disconnect', self.other[sid])]
            return []
        if self.dh == 'send_stale':
            # the handler sends to a session that ended earlier (its entry may still sit in the table)
            return [('send', self.stale, 'to-a-dead-session')] if getattr(self, 'stale', None) else []
        if self.dh == 'raise':
            return [('raise', 'disconnect handler failure')]
        if self.dh == 'yield':
            return [('yield',)]
        if self.dh == 'sleep':
            return [('sleep', 0.25)]
        if self.dh == 'reenter_disconnect':
            return [('disconnect', sid)]
        if self.dh == 'reenter_send':
            return [('send', sid, 'from-disconnect-handler')]
        return []


class Events(core.Scenario):
    def build(self):
        p = self.params
        impl, tr, causes = p['impl'], p['transport'], p['causes']
        self.horizon = max([0.25 if p['dh'] == 'sleep' else 0.0] + [{'send_late': INTERVAL + TIMEOUT + 0.5,
                                     'silence': INTERVAL + 3 * TIMEOUT + INTERVAL + TIMEOUT + 0.5}.get(c, 0.0)
                                    for c in causes])
        extra = {}
        if p.get('handlers') == 'legacy':
            extra['legacy_disconnect'] = True          # disconnect handler with the old one-argument signature
        if p.get('handlers') == 'plain_functions' and impl == 'async':
            extra['sync_handlers'] = True              # ordinary functions registered on the asyncio server
        if p.get('trace') and impl == 'sync':
            # line-granular preemption inside the named library functions (DESIGN 3.4)
            extra['trace_funcs'] = p['trace']
        w = self.world = peer.make_world(
            impl, server_kwargs=dict(ping_interval=INTERVAL, ping_timeout=TIMEOUT, max_http_buffer_size=100,
                                     async_handlers=False),
            behaviour=Beh(p['dh'], p.get('mh', 'record')), **extra)
        self.inj = []          # (cause, step, time)
        self.api_calls = []
        self.ws = None
        if p.get('reject_first'):
            # the very first connection attempt this server sees is rejected by the application
            w.http('GET', peer.BASEQ, headers={'X-Reject': '1' if p['reject_first'] is True else p['reject_first']})
            w.run()
            self.rejected_sid = ([e[1] for e in w.events if e[0] == 'connect'] or [None])[0]
        if p.get('disc_all_first'):
            # an earlier generation: a session came and went, then the application disconnected "everybody" (empty table)
            s0 = peer.sid_of(peer.open_polling(w))
            peer.post(w, s0, '1')
            w.http('GET', peer.BASEQ + '&sid=' + s0)
            w.run()
            w.call('disconnect')
            w.run()
        if tr == 'ws_only':
            self.ws = peer.ws_open(w)
            self.A = [e[1] for e in w.events if e[0] == 'connect'][-1]
        else:
            self.A = peer.sid_of(peer.open_polling(w))
            if tr == 'websocket':
                self.ws = peer.do_upgrade(w, self.A)
        if p.get('mid_upgrade'):
            # the session is in the middle of an upgrade handshake (probe answered, UPGRADE not sent yet) when it is ended
            self.ws = peer.ws_upgrade(w, self.A)
            w.ws_send(self.ws, '2probe')
            w.run()
        self.B = peer.sid_of(peer.open_polling(w))
        self.pollB = peer.poll(w, self.B)
        self.pollA = peer.poll(w, self.A) if tr == 'polling' and p.get('poll', True) else None
        if p.get('bystander_first'):
            # another session ends first, and the application's handler fails on it
            extra_sid = peer.sid_of(peer.open_polling(w))
            peer.post(w, extra_sid, '1')
            w.beh.stale = extra_sid
        w.beh.other = {self.A: self.B, self.B: self.A}
        # a message before anything else: must be delivered, exactly once, before the disconnect
        if tr == 'polling':
            peer.post(w, self.A, '4hello')
        else:
            w.ws_send(self.ws, '4hello')
            w.run()
        A = self.A

        def cause(name):
            def fire(sc):
                sc.inj.append((name, sc.world.nstep, sc.world.now))
                ww = sc.world
                if name == 'post_close':
                    sc.postA = peer.post(ww, A, '1', run=False)
                elif name == 'post_cancel':
                    ww.cancel(sc.postA)
                elif name == 'frame_close':
                    ww.ws_send(sc.ws, '1')
                elif name == 'api_disc':
                    sc.api_calls.append((name, ww.call('disconnect', A)))
                elif name == 'api_disc_all':
                    sc.api_calls.append((name, ww.call('disconnect')))
                elif name == 'post_bad':
                    peer.post(ww, A, '4ok\x1e7', run=False)
                elif name == 'post_oversize':
                    peer.post(ww, A, '4' + 'a' * 200, run=False)
                elif name == 'peer_close':
                    ww.ws_close(sc.ws)
                elif name == 'send_late':
                    ww.call('send', A, 'too-late')
                elif name == 'send_fault':
                    # the next write on the WebSocket fails (connection reset by the peer, who keeps the socket half-open)
                    sc.ws.fail_send_at = getattr(sc.ws, 'nsend', 0)
                    ww.call('send', A, 'never-arrives')
                elif name == 'silence':
                    pass
                elif name == 'poll_cancel':
                    ww.cancel(sc.pollA)
                elif name == 'post_msg':
                    peer.post(ww, A, '4racing', run=False)
                elif name == 'frame_msg':
                    ww.ws_send(sc.ws, '4racing')
            nb = None
            if name == 'send_late':
                nb = INTERVAL + TIMEOUT + 0.5
            if name == 'silence':
                nb = INTERVAL + 3 * TIMEOUT + INTERVAL + TIMEOUT + 0.5
            en = None
            if name == 'post_cancel':
                # (only once the CLOSE packet of the POST has been acted on: a request cancelled before that never arrived)
                en = lambda sc: getattr(sc, 'postA', None) is not None and not sc.postA.done and \
                    A in getattr(sc.world.beh, 'entered', ())
            return core.Action(name, fire, en, nb)
        if p.get('together'):
            # both causes are delivered in the same instant by one environment action (two requests /
            # calls arriving together), so that a single preemption suffices to interleave them
            acts = [cause(c) for c in causes]
            self.scripts = [[core.Action('+'.join(causes), lambda sc: [a.fire(sc) for a in acts])]]
        else:
            self.scripts = [[cause(c)] for c in causes]

    def finish(self):
        w = self.world
        p = self.params
        A, B = self.A, self.B
        w.run()
        n_before_suffix = len(w.events)
        # late traffic: nothing of it may produce an event for A
        ended = [e for e in w.events if e[0] == 'disconnect' and e[1] == A]
        late = []
        late.append(peer.poll(w, A))
        late.append(peer.post(w, A, '4late'))
        if self.ws is not None and not self.ws.done:
            w.ws_send(self.ws, '4late-frame')
            w.run()
        if ended and 'post_cancel' in p['causes']:
            # the session's disconnect event has fired and its handler has returned: the session is finished, whatever became
            # of the request that carried the CLOSE packet - a later request for it is refused, not served
            served = [(r.method, r.status) for r in late if not r.done or r.status == 200]
            if served:
                self.flag('cleanup_skipped', 'after the disconnect event of the session, requests for it were still served: %r '
                          '(not answered / 200 instead of 400)' % served, trigger='+'.join(p['causes']) + '/' + p['dh'])
        c = w.call('disconnect', A)
        w.run()
        c2 = w.call('send', A, 'x')
        w.run()
        # bystander still works
        cb = w.call('send', B, 'for-b')
        w.run()
        w.run_until(w.now + INTERVAL + 3 * TIMEOUT + INTERVAL + TIMEOUT + 1.0)
        evA = [e for e in w.events if e[1] == A]
        trig = '+'.join(p['causes']) + '/' + p['dh']
        if p.get('trace'):
            trig = 'line_preemption'
        kinds = [e[0] for e in evA]
        if kinds.count('connect') != 1 or kinds[0] != 'connect':
            self.flag('connect_not_first_once', 'events %r' % kinds, trigger=trig)
        nd = kinds.count('disconnect')
        if nd != 1:
            self.flag('disconnect_count', '%d disconnect events for an accepted session (events %r, reasons %r)'
                      % (nd, kinds, [e[2] for e in evA if e[0] == 'disconnect']), trigger=trig)
        if nd >= 1:
            i = kinds.index('disconnect')
            after = evA[i + 1:]
            after = [e for e in after if e[0] != 'disconnect']
            # a message whose request had been received before the disconnect event fired may
            # still reach its handler afterwards (DESIGN S4); only later arrivals count
            bad_step = [s for n, s, t in self.inj if n == 'post_bad']
            after = [e for e in after if not (e[0] == 'message' and e[2] == 'ok' and bad_step and bad_step[0] < evA[i][4])]
            race_step = [s for n, s, t in self.inj if n in ('post_msg', 'frame_msg')]
            after = [e for e in after if not (e[0] == 'message' and e[2] == 'racing' and race_step and race_step[0] < evA[i][4])]
            if after:
                self.flag('event_after_disconnect', 'events after the disconnect event: %r' % [e[:3] for e in after], trigger=trig)
            ev = evA[i]
            allowed = set()
            # an injection made when n steps had completed precedes an event fired in step index e iff n < e
            for name, step, t in self.inj:
                if step < ev[4]:
                    allowed.update(REASONS[name])
            if ev[3] >= INTERVAL + TIMEOUT - 0.01:
                allowed.update(TIMED)
            if ev[4] > getattr(self, 'suffix_step', 10 ** 9):
                pass
            if not self.inj or all(step >= ev[4] for _, step, _ in self.inj):
                # ended by the suffix's own traffic / silence
                allowed.update(TIMED + ['server disconnect'])
            if ev[2] not in allowed and p.get('handlers') != 'legacy':
                self.flag('wrong_reason', 'reason %r, causes delivered before the event: %r (allowed %r)'
                          % (ev[2], [n for n, s, t in self.inj if s < ev[4]], sorted(allowed)), trigger=trig)
        msgs = [e for e in evA if e[0] == 'message']
        if [m[2] for m in msgs if m[2] == 'hello'] != ['hello']:
            self.flag('message_event_count', 'message events %r' % [m[2] for m in msgs], trigger=trig)
        if [m for m in msgs if m[2] in ('late', 'late-frame')]:
            self.flag('event_after_disconnect', 'late traffic produced message events %r' % [m[2] for m in msgs], trigger=trig)
        # cleanup happened even when the handler raised
        if A in w.table_sids():
            self.flag('cleanup_skipped', 'session still in the table at the horizon', trigger=trig)
        # bystander: unless disconnect() (all) was among the causes, it is alive and got its message
        evBd = [e for e in w.events if e[1] == B and e[0] == 'disconnect']
        if 'api_disc_all' in p['causes'] or p['dh'] == 'kick_other':
            # the bystander is ended too (by disconnect() or by the other session's handler): exactly one event, and
            # - when nothing in the scenario waits for a timeout - at once and for the right reason
            if len(evBd) != 1:
                self.flag('disconnect_count', 'bystander: %d disconnect events (%r)' % (len(evBd), [e[2] for e in evBd]), trigger=trig)
            elif self.horizon == 0.0 and p['causes'] in (['api_disc_all'], ['api_disc']) and \
                    (all(c.done and not c.exc for _, c in self.api_calls) or
                     (p['impl'] == 'async' and p['causes'] == ['api_disc_all'] and not any(c.exc for _, c in self.api_calls))) and \
                    (evBd[0][2] != 'server disconnect' or evBd[0][3] > 0.01):
                # (a disconnect() that never returns is C15's subject; here: it returned, so it has ended every session - or it is
                # the asyncio disconnect() of everybody, which ends the sessions side by side whether or not one of them keeps it waiting)
                self.flag('other_session_not_disconnected', 'disconnect call(s) returned (or: asyncio disconnect() of everybody), bystander was to be ended by the server at t=0; '
                          'its disconnect event: %r' % (evBd[0][:4],), trigger=trig)
        rs = getattr(self, 'rejected_sid', None)
        if rs is not None:
            # the id the rejected connect handler saw: traffic naming it produces nothing, ever
            peer.post(w, rs, '4to-rejected')
            peer.poll(w, rs)
            w.run_until(w.now + 0.01)
            evr = [e for e in w.events if e[1] == rs]
            if [e[0] for e in evr] != ['connect'] or rs in w.table_sids():
                self.flag('event_for_rejected_session', 'events for the rejected id: %r (still in the table: %s)'
                          % ([e[:3] for e in evr], rs in w.table_sids()), trigger=trig)
        for name, c in self.api_calls:
            if c.exc:
                self.flag('disconnect_call_raised', '%s raised %s at %s - sessions it had not reached yet are left open'
                          % ('disconnect()' if name == 'api_disc_all' else 'disconnect(sid)', c.exc['type'], c.exc.get('site')), trigger=trig)
        if 'api_disc_all' not in p['causes'] and p['dh'] != 'kick_other':
            evB = [e for e in w.events if e[1] == B and e[0] == 'disconnect']
            early = [e for e in evB if e[3] < INTERVAL + TIMEOUT - 0.01]
            if early:
                self.flag('bystander_affected', 'bystander disconnected: %r' % [e[:4] for e in early], trigger=trig)
            if self.horizon == 0.0 and not (self.pollB.done and self.pollB.status == 200 and
                                            (4, 'for-b') in peer.decode_body(self.pollB.text())):
                if not early:
                    self.flag('bystander_affected', 'bystander poll: done=%s status=%r body=%r' % (self.pollB.done, self.pollB.status, self.pollB.body), trigger=trig)
        for r in w.reqs:
            if r.exc:
                self.flag('exception_escaped', '%s %s raised %s at %s' % (r.method, r.query[:30], r.exc['type'], r.exc['site']), trigger=trig)

    def observation(self):
        w = self.world
        return {'A': [(e[0], e[2]) for e in w.events if e[1] == self.A],
                'B': [(e[0], e[2]) for e in w.events if e[1] == self.B],
                'scenario': [self.params['impl'], self.params['transport'], list(self.params['causes']), self.params['dh']]}


def param_list(ctx):
    ps = []
    for impl in ('sync', 'async'):
        for tr, causes in (('polling', POLLING_CAUSES), ('websocket', WS_CAUSES), ('ws_only', WS_CAUSES)):
            singles = [(c,) for c in causes]
            pairs = [t for t in itertools.permutations([c for c in causes if c != 'silence'], 2)]
            for cs in singles:
                for dh in DH:
                    ps.append({'impl': impl, 'transport': tr, 'causes': list(cs), 'dh': dh})
            if tr == 'ws_only' and ctx.quick:
                continue
            for cs in pairs:
                for dh in (('record', 'yield') if ctx.quick else ('record', 'yield', 'raise')):
                    ps.append({'impl': impl, 'transport': tr, 'causes': list(cs), 'dh': dh})
            if tr == 'websocket':
                # a CLOSE (or a bad packet) that still arrives by POST after the session has been upgraded
                for c in ('post_close', 'post_bad'):
                    for dh in ('record', 'yield'):
                        ps.append({'impl': impl, 'transport': tr, 'causes': [c], 'dh': dh})
            if tr == 'polling':
                for c in ('post_close', 'api_disc', 'post_bad', 'post_oversize'):
                    for dh in ('record', 'yield'):
                        ps.append({'impl': impl, 'transport': tr, 'causes': [c], 'dh': dh, 'poll': False, 'mid_upgrade': True})
            if impl == 'async' and tr == 'polling':
                # disconnect() of everybody while the first session has no poll waiting (its client is between two polls): the
                # asyncio server ends the sessions side by side, the other one is not kept waiting
                for dh in ('record', 'yield'):
                    ps.append({'impl': impl, 'transport': tr, 'causes': ['api_disc_all'], 'dh': dh, 'poll': False})
                for dh in DH:
                    ps.append({'impl': impl, 'transport': tr, 'causes': ['poll_cancel'], 'dh': dh})
                for dh in ('yield', 'sleep'):
                    ps.append({'impl': impl, 'transport': tr, 'causes': ['post_close', 'post_cancel'], 'dh': dh})
                for cs in (['poll_cancel', 'api_disc'], ['post_close', 'poll_cancel'], ['poll_cancel', 'post_bad']):
                    ps.append({'impl': impl, 'transport': tr, 'causes': cs, 'dh': 'record'})
            ps.append({'impl': impl, 'transport': tr, 'causes': [causes[0]], 'dh': 'record', 'mh': 'raise'})
            for cs in ([causes[0]], ['api_disc'], ['silence']):
                ps.append({'impl': impl, 'transport': tr, 'causes': cs, 'dh': 'record', 'handlers': 'legacy'})
                ps.append({'impl': impl, 'transport': tr, 'causes': cs, 'dh': 'raise', 'handlers': 'legacy'})
                if impl == 'async':
                    ps.append({'impl': impl, 'transport': tr, 'causes': cs, 'dh': 'record', 'handlers': 'plain_functions'})
                    ps.append({'impl': impl, 'transport': tr, 'causes': cs, 'dh': 'raise', 'handlers': 'plain_functions'})
            for cs in ([causes[0]], ['api_disc'], ['silence']):
                ps.append({'impl': impl, 'transport': tr, 'causes': cs, 'dh': 'raise_type_once', 'bystander_first': True})
            # handlers that touch *another* session while this one is being closed
            for cs in (['api_disc_all'], ['api_disc'], [causes[0]]):
                ps.append({'impl': impl, 'transport': tr, 'causes': cs, 'dh': 'kick_other'})
                ps.append({'impl': impl, 'transport': tr, 'causes': cs, 'dh': 'send_stale', 'bystander_first': True})
            ps.append({'impl': impl, 'transport': tr, 'causes': ['silence'], 'dh': 'record', 'reject_first': True})
            ps.append({'impl': impl, 'transport': tr, 'causes': ['silence'], 'dh': 'record', 'disc_all_first': True})
            ps.append({'impl': impl, 'transport': tr, 'causes': [causes[0]], 'dh': 'record', 'reject_first': True})
            ps.append({'impl': impl, 'transport': tr, 'causes': [causes[0]], 'dh': 'record', 'reject_first': 'type'})
            # a MESSAGE that may be delivered while the disconnect handler of another cause is suspended
            racer = 'post_msg' if tr == 'polling' else 'frame_msg'
            for c0 in (causes[0], 'api_disc'):
                for dh in ('yield', 'sleep', 'record'):
                    ps.append({'impl': impl, 'transport': tr, 'causes': [c0, racer], 'dh': dh})
            if tr == 'polling':
                ps.append({'impl': impl, 'transport': tr, 'causes': ['api_disc'], 'dh': 'record', 'poll': False})
                ps.append({'impl': impl, 'transport': tr, 'causes': ['post_bad', 'api_disc'], 'dh': 'yield', 'poll': False})
    if not ctx.quick:
        for impl in ('sync', 'async'):
            for cs in itertools.permutations(['post_close', 'api_disc', 'post_bad'], 3):
                ps.append({'impl': impl, 'transport': 'polling', 'causes': list(cs), 'dh': 'yield'})
    return ps


def _short(choices):
    t = ''.join(map(str, choices))
    return t if len(t) <= 90 else t[:90] + '...(%d points)' % len(t)


def trace_list(ctx):
    ps = []
    pairs = [('polling', ['post_close', 'api_disc']), ('polling', ['api_disc', 'post_bad']),
             ('polling', ['post_close', 'post_oversize']), ('websocket', ['frame_close', 'api_disc']),
             ('websocket', ['peer_close', 'api_disc'])]
    if not ctx.quick:
        pairs += [('polling', ['api_disc', 'api_disc_all']), ('ws_only', ['peer_close', 'frame_close']),
                  ('polling', ['post_close', 'post_bad'])]
    for tr, cs in pairs:
        ps.append({'impl': 'sync', 'transport': tr, 'causes': cs, 'dh': 'record', 'trace': ['close'], 'together': True})
        ps.append({'impl': 'sync', 'transport': tr, 'causes': cs, 'dh': 'record', 'together': True})
        ps.append({'impl': 'async', 'transport': tr, 'causes': cs, 'dh': 'yield', 'together': True})
    return ps


def run(ctx):
    rep = report.Report('C05', 'model_checking')
    bound = 1 if ctx.quick else 2
    params = param_list(ctx)
    if not ctx.quick:
        params = [dict(q, _free_switch=True) for q in params]
    st, viols, samples, gate = core.run_search(Events, params, bound, ctx.workers, ctx.seed)
    # threaded server only: every source line of Socket.close is a scheduling point
    st_l, viols_l, samples_l, gate_l = core.run_search(Events, [dict(q, _free_switch=True) for q in trace_list(ctx)],
                                                       bound, ctx.workers, ctx.seed)
    st.merge(st_l)
    viols += viols_l
    samples = samples[:3] + samples_l[:1]
    line_execs = st_l.executions
    for v in viols:
        pr = v['params']
        rep.add(report.Violation(
            dict({'impl': pr['impl'], 'kind': v['kind']}, **v['sig']),
            '[%s %s causes=%r dh=%s choices=%s] %s' % (pr['impl'], pr['transport'], pr['causes'], pr['dh'],
                                                     _short(v['choices']), v['text']),
            {'params': pr, 'choices': v['choices']}, weight=(v['dev'], len(v['choices']))))
    rep.coverage = {
        'states': len(st.outcomes), 'transitions': st.points, 'traces_validated_against_impl': st.executions,
        'samples': samples[:4],
        'evaluations': st.executions, 'distinct_nontrivial': len(st.outcomes),
        'rule': 'scenarios: transport {polling, upgraded, ws-only} x end causes (singles %s ordered pairs) x disconnect-handler '
                'behaviour %r (+ raising message handler, no pending poll) x {Server, AsyncServer}; each cause is its own script; '
                'all interleavings at quiescence and schedules with <= %d deviation(s); late-traffic suffix and %.0fs of virtual '
                'time. states = distinct (scenario, per-session event log) digests; transitions = decision points executed.'
                % ('and' if ctx.quick else 'and (thorough: plus triples)', DH, bound, INTERVAL + 3 * TIMEOUT + INTERVAL + TIMEOUT + 1.0),
        'exhaustive': True, 'bound_completed': bound, 'caps_hit': st.caps, 'scenarios': len(params),
        'executions_by_deviations': {str(k): v for k, v in sorted(st.by_dev.items())},
        'max_decision_points': st.max_points, 'determinism_gate': gate,
        'line_granular_executions': line_execs,
    }
    rep.assumptions = [
        'an event fires at entry to its handler; overlapping causes: the reason of any cause delivered before the event fired is accepted (DESIGN S4)',
        'a protocol error / oversize POST may be reported as server disconnect or transport error',
        'threaded schedules at synchronisation-operation granularity, plus line-granular preemption (sys.settrace) inside Socket.close for racing closers of one session',
    ]
    return rep


def replay(ctx, payload):
    r = report.unbytes(payload['replay'])
    ex = core.execute(Events, r['params'], r['choices'], want_labels=True)
    for lab in ex.labels:
        print('  ', lab)
    print('observation:', ex.obs)
    for v in ex.violations:
        print('REPLAY VIOLATION:', v)
    return 1 if ex.violations else 0
