"""C08 Client connection lifecycle: one connect, one disconnect, clean reusable
state.

History search over server behaviours: the real Client (virtual threads) and
AsyncClient (virtual loop) talk to a scripted server that answers every
request from a finite menu (refuse, time out, error status, garbage, empty,
non-OPEN, OPEN with/without upgrades and piggy-backed packets; WebSocket
connect fails/accepts; probe answered correctly / wrongly / not at all /
closed; per poll: messages, PING, NOOP, CLOSE, unknown type, garbage, 4xx,
connection error, silence; per POST: 200, 4xx, error). Application actions
(send, disconnect from the main flow and from inside each handler) run as a
parallel script; all interleavings plus up to D deviations. Epilogue: wait(),
no-op calls, and a second connect() on the same object.
"""
import itertools
import json

from vf import report
from vf.explore import core
from vf.vworld import cworld

URL = 'http://srv:8080'
OPEN = {'sid': 'S1', 'upgrades': [], 'pingInterval': 1000, 'pingTimeout': 1000, 'maxPayload': 1000000}
OPEN_UP = dict(OPEN, upgrades=['websocket'])

CONNECT_FAIL = ['refused', 'timeout', '400json', '401text', '500', '200garbage', '200empty', '200nonopen',
                '200open_not_object']
CONNECT_OK = ['open', 'open_more']
POLL_MENU = ['msg', 'ping', 'noop', 'close', 'unknown', 'garbage', 's400', 'err', 'silence']
POST_MENU = ['ok', 's400', 'err']


FRAC = {'pingInterval': 1500, 'pingTimeout': 500}      # a heartbeat announced in fractions of a second


def connect_response(kind, frac=False):
    """-> ('resp', status, body, ctype) | ('fail',) | ('silence',)"""
    o = '0' + json.dumps(dict(OPEN, **FRAC) if frac else OPEN)
    return {
        'refused': ('fail',), 'timeout': ('silence',),
        '400json': ('resp', 400, '"bad"', 'application/json'),
        '401text': ('resp', 401, 'no', 'text/plain'),
        '500': ('resp', 500, '<html>', 'text/html'),
        '200garbage': ('resp', 200, 'x', 'text/plain'),
        '200empty': ('resp', 200, '', 'text/plain'),
        '200nonopen': ('resp', 200, '4hello', 'text/plain'),
        '200open_not_object': ('resp', 200, '0"str"', 'text/plain'),
        'open': ('resp', 200, o, 'text/plain'),
        'open_up': ('resp', 200, '0' + json.dumps(dict(OPEN_UP, **FRAC) if frac else OPEN_UP), 'text/plain'),
        'open_more': ('resp', 200, o + '\x1e4first', 'text/plain'),
        # the server ends the session in the very response that opens it
        'open_close': ('resp', 200, o + '\x1e1', 'text/plain'),
        'open_more_close': ('resp', 200, o + '\x1e4first\x1e1', 'text/plain'),
    }[kind]


def poll_response(kind, k):
    return {
        'msg': ('resp', 200, '4m%d' % k, 'text/plain'), 'ping': ('resp', 200, '2', 'text/plain'),
        'noop': ('resp', 200, '6', 'text/plain'), 'close': ('resp', 200, '1', 'text/plain'),
        'unknown': ('resp', 200, '9', 'text/plain'), 'garbage': ('resp', 200, 'x\x1e', 'text/plain'),
        's400': ('resp', 400, '"gone"', 'application/json'), 'err': ('fail',), 'silence': ('silence',),
    }[kind]


def ws_frame(kind, k):
    return {'msg': '4m%d' % k, 'ping': '2', 'noop': '6', 'close': '1', 'unknown': '9', 'garbage': '',
            's400': ('close',), 'err': ('error',), 'silence': None}[kind]


def apply(w, p, resp):
    if resp[0] == 'resp':
        w.answer(p, resp[1], resp[2], resp[3])
    elif resp[0] == 'fail':
        w.fail(p)


class Lifecycle(core.Scenario):
    def build(self):
        p = self.params
        self.impl = p['impl']
        ckw = {}
        if p.get('ws_timeout'):
            # the application bounds the WebSocket connection attempt (websocket_extra_options of the threaded client)
            ckw['client_kwargs'] = {'websocket_extra_options': {'timeout': p['ws_timeout']}}
        w = self.world = cworld.make_client_world(self.impl, legacy_disconnect=bool(p.get('legacy')), **ckw)
        self.causes = []          # (party, step)
        self.delivered_steps = []
        self.msg_step = {}
        self.n_msgs = 0
        eff = p.get('effects', {})
        for kind, e in eff.items():
            w.effects[kind] = (lambda arg, e=e: [tuple(e)])
        self.transports = p['transports']
        self.conn = w.call('connect', URL, transports=self.transports)
        self.horizon = 30.0
        srv = []
        sc = self

        def get_answer(kind_fn, name):
            def en(s):
                return bool(s.world.server.pending_reqs('GET'))

            def fire(s):
                pr = s.world.server.pending_reqs('GET')[0]
                resp = kind_fn()
                if resp[0] != 'silence':
                    apply(s.world, pr, resp)
                    s.delivered_steps.append(s.world.nstep)
                    if resp[0] == 'resp' and resp[1] == 200:
                        for seg in resp[2].split('\x1e'):
                            if seg.startswith('4'):
                                s.msg_step[seg[1:]] = s.world.nstep
                    s.note_cause_for(name, resp)
                else:
                    pr.ignored = True
                    s.note_cause_for('silence', resp)
            return core.Action('GET<-' + name, fire, en)
        # the first request answered is the connect
        tr0 = (self.transports or ['polling'])[0]
        if tr0 == 'polling':
            srv.append(get_answer(lambda: connect_response(p['connect'], p.get('frac')), p['connect']))
            if p['connect'] == 'open_up':
                srv += self.ws_handshake_actions(p.get('ws', ['accept', 'probe_ok']))
        else:
            srv += self.ws_open_actions(p.get('ws', ['accept', 'open']))
        for k, a in enumerate(p.get('polls', [])):
            if self.on_ws(p):
                srv.append(self.ws_push_action(a, k))
            else:
                srv.append(get_answer(lambda a=a, k=k: poll_response(a, k), a))
            if p.get('spacing'):
                # a paced server: its k-th answer is not sent before (k+1) x spacing (heartbeat cycles a little longer than
                # ping_interval, as they are when PONGs take time to arrive)
                srv[-1].not_before = (k + 1) * p['spacing']
        self.post_answers = list(p.get('posts', []))
        app = []
        for a in p.get('app', []):
            app.append(self.app_action(a))
        self.scripts = [srv, app, []]     # third script: POST answers, filled reactively

    def on_ws(self, p):
        tr0 = (self.transports or ['polling'])[0]
        if tr0 == 'websocket':
            return p.get('ws', ['accept', 'open'])[:2] == ['accept', 'open']
        return p['connect'] == 'open_up' and p.get('ws', ['accept', 'probe_ok']) == ['accept', 'probe_ok'] and \
            'websocket' in (self.transports or ['polling', 'websocket'])

    # -- reactive: answer POSTs as they appear (default 200 ok, or the scripted menu)
    def step_check(self):
        w = self.world
        if self.conn.done and not hasattr(self, 'transport_after_connect'):
            self.transport_after_connect = w.client.transport()
        for pr in w.server.pending_reqs('POST'):
            if getattr(pr, 'queued', False):
                continue
            pr.queued = True
            kind = self.post_answers.pop(0) if self.post_answers else 'ok'

            def fire(s, pr=pr, kind=kind):
                if kind == 'ok':
                    s.world.answer(pr, 200, 'ok')
                elif kind == 's400':
                    s.world.answer(pr, 400, '"bad"', 'application/json')
                    s.causes.append(('transport', s.world.nstep))
                else:
                    s.world.fail(pr)
                    s.causes.append(('transport', s.world.nstep))
                if '1' in (pr.body or '').split('\x1e'):
                    pass
            self.scripts[2].append(core.Action('POST<-' + kind, fire))

    def note_cause_for(self, name, resp):
        st = self.world.nstep
        if name in ('close', 'open_close', 'open_more_close'):
            self.causes.append(('server', st))
        elif name in ('garbage', 's400', 'err', 'silence', 'refused', 'timeout'):
            self.causes.append(('transport', st))

    def ws_handshake_actions(self, beh):
        acts = []

        def en_c(s):
            return bool(s.world.server.pending_ws())

        def fire_c(s):
            s.world.ws_decide(s.world.server.pending_ws()[0], beh[0] == 'accept')
        acts.append(core.Action('WS<-' + beh[0], fire_c, en_c))
        if beh[0] != 'accept':
            return acts
        what = beh[1]

        def en_p(s):
            ws = [x for x in s.world.server.wss if x.accepted]
            return bool(ws) and any(f[3] == '2probe' for f in ws[-1].sent)

        def fire_p(s):
            ws = [x for x in s.world.server.wss if x.accepted][-1]
            if what == 'probe_ok':
                s.world.ws_push(ws, '3probe')
            elif what == 'probe_wrong':
                s.world.ws_push(ws, '3nope')
            elif what == 'probe_close':
                s.world.ws_push(ws, ('close',))
            elif what == 'probe_garbage':
                s.world.ws_push(ws, '')
            elif what == 'probe_ok_drop':
                # the probe is answered, then the connection is lost: the client's next write on it fails
                s.world.ws_push(ws, '3probe')
                ws.closed_by_server = True
        if what != 'probe_silence':
            acts.append(core.Action('WS<-' + what, fire_p, en_p))
        return acts

    def ws_open_actions(self, beh):
        acts = []

        def en_c(s):
            return bool(s.world.server.pending_ws())

        def fire_c(s):
            s.world.ws_decide(s.world.server.pending_ws()[0], beh[0] == 'accept')
            if beh[0] != 'accept':
                s.causes.append(('transport', s.world.nstep))
        acts.append(core.Action('WS<-' + beh[0], fire_c, en_c))
        if beh[0] != 'accept':
            return acts
        what = beh[1]

        def en_o(s):
            return any(x.accepted for x in s.world.server.wss)

        def fire_o(s):
            ws = [x for x in s.world.server.wss if x.accepted][-1]
            item = {'open': '0' + json.dumps(dict(OPEN, **FRAC) if s.params.get('frac') else OPEN), 'nonopen': '4hello', 'garbage': 'x', 'close': ('close',)}.get(what)
            if item is not None:
                s.world.ws_push(ws, item)
        if what != 'silence':
            acts.append(core.Action('WS<-first:' + what, fire_o, en_o))
        return acts

    def ws_push_action(self, a, k):
        def en(s):
            return bool(s.world.server.open_ws()) and s.world.client.state in ('connected', 'disconnecting')

        def fire(s):
            ws = s.world.server.open_ws()[-1]
            item = ws_frame(a, k)
            if item is not None:
                s.world.ws_push(ws, item)
                s.delivered_steps.append(s.world.nstep)
                if isinstance(item, str) and item.startswith('4'):
                    s.msg_step[item[1:]] = s.world.nstep
            s.note_cause_for(a, None)
        return core.Action('WS<-' + a, fire, en)

    def app_action(self, a):
        def en(s):
            return s.conn.done

        def fire(s):
            if a == 'disconnect':
                if s.world.client.state == 'connected':
                    s.causes.append(('client', s.world.nstep))
                s.world.call('disconnect')
            elif a == 'send':
                s.world.call('send', 'from-app')
        return core.Action('app:' + a, fire, en)

    # ------------------------------------------------------------- verdicts
    def finish(self):
        w = self.world
        p = self.params
        c = w.client
        trig = scenario_class(p)
        ev = list(w.events)
        kinds = [e[0] for e in ev]
        for what, step, state in w.effect_log:
            if what == 'disconnect' and state == 'connected':
                # logged inside a step (an index, not a completed-step count): it precedes whatever fires later in that step
                self.causes.append(('client', step - 0.5))
        if not self.conn.done:
            site = w.blocked_site(self.conn) if hasattr(w, 'blocked_site') else []
            self.flag('connect_never_returned', 'connect() still running at the horizon %s' % site, trigger=trig)
            return
        ok_open = self.expect_established()
        if self.conn.exc:
            x = self.conn.exc
            if x['type'] != 'ConnectionError':
                self.flag('connect_wrong_exception', 'connect() raised %s(%s) at %s instead of ConnectionError'
                          % (x['type'], x['text'], x['site']), trigger=trig, site=(x['site'] or ['?'])[-1])
            elif ok_open:
                self.flag('connect_refused_valid', 'connect() raised ConnectionError(%s) although the server accepted' % x['text'], trigger=trig)
            if ev:
                self.flag('event_after_failed_connect', 'events %r after a failed connect()' % [e[:2] for e in ev], trigger=trig)
        else:
            if not ok_open and ok_open is not None:
                self.flag('connect_accepted_invalid', 'connect() returned normally for server answer %r' % p['connect'], trigger=trig)
            if kinds.count('connect') != 1 or kinds[0] != 'connect':
                self.flag('connect_event_count', 'events %r' % kinds, trigger=trig)
            else:
                snap = ev[0][1]
                want_t = (1.5, 0.5) if p.get('frac') else (1.0, 1.0)
                if snap.get('sid') != 'S1' or (snap.get('pi'), snap.get('pt')) != want_t:
                    self.flag('open_not_adopted', 'adopted %r, announced sid=S1 %d/%d ms' % (snap, want_t[0] * 1000, want_t[1] * 1000), trigger=trig)
            if p.get('spacing') and self.pos[0] < len(self.scripts[0]):
                # the paced server never went silent for ping_interval + ping_timeout, yet the client ended the connection before
                # the server had said everything it had to say
                self.flag('healthy_connection_given_up', 'the server paced its answers %.3f s apart (within the announced ping_interval + ping_timeout = 2 s); the client '
                          'ended the connection before answer #%d: events %r' % (p['spacing'], self.pos[0], [e[:2] for e in ev]), trigger=trig)
            nd = kinds.count('disconnect')
            if nd != 1:
                self.flag('disconnect_count', '%d disconnect events (events %r, state %r, causes %r)'
                          % (nd, [e[:2] for e in ev], c.state, self.causes), trigger=trig,
                          reasons='+'.join(str(e[1]) for e in ev if e[0] == 'disconnect'))
            else:
                i = kinds.index('disconnect')
                reason = ev[i][1]
                dstep = ev[i][3]
                allowed = {{'client': 'client disconnect', 'server': 'server disconnect', 'transport': 'transport error'}[pty]
                           for pty, st in self.causes if st < dstep}
                if not allowed:
                    allowed = {'transport error'}     # ended by silence / timeouts alone
                if p.get('legacy'):
                    pass        # a handler of the older API is not told the reason
                elif reason not in allowed:
                    self.flag('wrong_reason', 'reason %r, causes before the event %r' % (reason, [q for q in self.causes if q[1] < dstep]), trigger=trig)
                # message handlers run in the background: one whose packet reached the client before the
                # disconnect event fired may still run after it (DESIGN S4); anything else may not
                late = [e for e in ev[i + 1:] if not (e[0] == 'message' and self.msg_step.get(e[1], 10 ** 9) < dstep)]
                if late:
                    self.flag('event_after_disconnect', 'events after disconnect: %r' % [e[:2] for e in late], trigger=trig)
        # a failed upgrade leaves the client on polling: everything it sent must have gone out as POSTs
        if p['connect'] == 'open_up' and p.get('ws', ['accept', 'probe_ok']) != ['accept', 'probe_ok'] and not self.conn.exc:
            if getattr(self, 'transport_after_connect', 'polling') != 'polling':
                self.flag('wrong_transport_adopted', 'transport() = %r after an upgrade that failed' % self.transport_after_connect, trigger=trig)
        # clean state
        if c.state != 'disconnected' or c.sid is not None:
            self.flag('state_not_clean', 'state %r sid %r at the horizon' % (c.state, c.sid), trigger=trig)
        alive = w.tasks_alive()
        if alive:
            self.flag('tasks_alive', 'background tasks still running: %r' % alive, trigger=trig)
        if w.registered():
            self.flag('still_registered', 'client still listed in connected_clients', trigger=trig)
        errs = [e for e in w.loop_errors() if 'HandlerError' not in e.get('exception', '')]
        if errs:
            self.flag('background_exception', 'exception left a background task: %r' % errs[:2], trigger=trig)
        # wait() returns, no-op calls are harmless
        n_ev, n_req = len(w.events), len(w.server.reqs)
        wc = w.call('wait')
        sc = w.call('send', 'nobody-listens')
        dc = w.call('disconnect')
        w.run_until(w.now + 8)
        for name, h in (('wait', wc), ('send', sc), ('disconnect', dc)):
            if not h.done:
                self.flag('call_blocked_when_disconnected', '%s() did not return on a disconnected client' % name, trigger=trig)
            elif h.exc:
                self.flag('call_raised_when_disconnected', '%s() raised %s' % (name, h.exc['type']), trigger=trig)
        if len(w.events) != n_ev or len(w.server.reqs) != n_req:
            self.flag('noop_not_harmless', 'send()/disconnect() on a disconnected client produced events %r / %d requests'
                      % ([e[:2] for e in w.events[n_ev:]], len(w.server.reqs) - n_req), trigger=trig)
        # reusable: a second connect() behaves like the first
        n_ev = len(w.events)
        c2 = w.call('connect', URL, transports=['polling'])
        w.run()
        pr = w.server.pending_reqs('GET')
        if pr:
            n_before = len(w.server.reqs)
            w.answer(pr[-1], 200, '0' + json.dumps(dict(OPEN, sid='S2')))
            w.run()
            w.run_until(w.now + 0.5)
            stale = [(r.method, r.body) for r in w.server.reqs[n_before:] if r.method == 'POST']
            if stale:
                self.flag('stale_traffic_after_reconnect', 'the fresh connection POSTed %r although the application sent nothing' % (stale,), trigger=trig)
            pr = w.server.pending_reqs('GET')
            if pr:
                w.answer(pr[-1], 200, '1')
        w.run_until(w.now + 8)
        got = [e[:2] for e in w.events[n_ev:]]
        got = [(k, a if k != 'connect' else a.get('sid')) for k, a in got]
        want_reuse = [('connect', 'S2'), ('disconnect', None if p.get('legacy') else 'server disconnect')]
        if c2.exc or not c2.done or got != want_reuse or c.state != 'disconnected':
            self.flag('not_reusable', 'second connect(): done=%s exc=%r events %r state %r' % (c2.done, c2.exc, got, c.state), trigger=trig)

    def expect_established(self):
        p = self.params
        tr0 = (self.transports or ['polling'])[0]
        if tr0 == 'polling':
            return p['connect'] in ('open', 'open_up', 'open_more', 'open_close', 'open_more_close')
        return p.get('ws', ['accept', 'open'])[:2] == ['accept', 'open']

    def observation(self):
        w = self.world
        return {'events': [(e[0], e[1] if e[0] != 'connect' else e[1].get('transport')) for e in w.events],
                'connect_exc': (self.conn.exc or {}).get('type'), 'state': w.client.state,
                'scenario': report.dumps(self.params, sort_keys=True)}



class Reconnect(Lifecycle):
    """The application reconnects the same client object 3 s after its disconnect event has fired (before the timers of
    the old connection have run out): the second connection is a connection of its own - nothing left over from the first one
    may end it, and it lasts until the (silent) server exceeds the client's read timeout."""
    def build(self):
        Lifecycle.build(self)
        self.t2 = None
        self.c2 = None

        def en_r(s):
            return s.c2 is None and s.conn.done and not s.conn.exc and s.world.client.state == 'disconnected' and \
                any(e[0] == 'disconnect' for e in s.world.events)

        def fire_r(s):
            s.n1 = len(s.world.events)
            s.nws1 = len(s.world.server.wss)
            s.c2 = s.world.call('connect', URL, transports=s.params.get('transports2', ['polling']))

        def en_o(s):
            return s.c2 is not None and s.t2 is None and any('sid=' not in r.url for r in s.world.server.pending_reqs('GET'))

        def fire_o(s):
            pr = [r for r in s.world.server.pending_reqs('GET') if 'sid=' not in r.url][0]
            s.world.answer(pr, 200, '0' + json.dumps(dict(OPEN, sid='S2')))
            s.t2 = s.world.now
        # (3 s later, so that timers of the first connection and of the second cannot coincide)
        self.scripts.append([core.Action('app:reconnect', fire_r, en_r, 3.0), core.Action('GET<-open2', fire_o, en_o)])

    def finish(self):
        w = self.world
        trig = 'reconnect_at_once'
        if self.c2 is None:
            return          # the first connection never ended with an event (judged by the main scenarios)
        ev1, ev2 = list(w.events[:self.n1]), list(w.events[self.n1:])
        if [e[0] for e in ev1].count('disconnect') != 1:
            self.flag('disconnect_count', 'first connection: events %r' % [e[:2] for e in ev1], trigger=trig)
        if not self.c2.done or self.c2.exc or self.t2 is None:
            self.flag('not_reusable', 'second connect(): done=%s exc=%r' % (self.c2.done, self.c2.exc), trigger=trig)
            return
        kinds = [e[0] for e in ev2]
        # max(pingInterval, pingTimeout) + 5 s is the client's read / idle timeout on polling
        limit = self.t2 + 1.0 + 5.0
        if kinds[:1] != ['connect'] or ev2[0][1].get('sid') != 'S2':
            self.flag('not_reusable', 'second connection: events %r' % [e[:2] for e in ev2], trigger=trig)
        early = [e for e in ev2[1:] if e[0] == 'disconnect' and e[2] < limit - 1e-9]
        if early:
            self.flag('second_connection_killed', 'the second connection (established at t=%.3f, server silent, read timeout at %.3f) '
                      'was ended at t=%.3f with %r by leftovers of the first' % (self.t2, limit, early[0][2], early[0][1]), trigger=trig)
        if kinds.count('disconnect') != 1:
            self.flag('disconnect_count', 'second connection: events %r' % [e[:3] for e in ev2], trigger=trig)
        if len(w.server.wss) > self.nws1:
            # the second OPEN announced no upgrades
            self.flag('upgrade_not_offered', 'the second connection opened a WebSocket although its OPEN packet announced upgrades=[] '
                      '(the first connection had been offered websocket)', trigger=trig)
        stale = [(r.method, r.body) for r in w.server.reqs if r.method == 'POST' and 'sid=S2' in r.url]
        if stale:
            self.flag('stale_traffic_after_reconnect', 'the second connection POSTed %r although the application sent nothing' % (stale,), trigger=trig)

    def observation(self):
        w = self.world
        return {'events': [(e[0], e[1] if e[0] != 'connect' else e[1].get('sid'), e[2]) for e in w.events],
                'scenario': report.dumps(self.params, sort_keys=True)}


def reconnect_params():
    ps = []
    for impl in ('sync', 'async'):
        for seq in (['close'], ['msg', 'close'], ['s400'], ['err'], ['garbage'], ['ping', 'close']):
            ps.append({'impl': impl, 'transports': ['polling'], 'connect': 'open', 'polls': seq})
        for seq in (['msg'], ['ping']):
            ps.append({'impl': impl, 'transports': ['polling'], 'connect': 'open', 'polls': seq, 'app': ['disconnect']})
            ps.append({'impl': impl, 'transports': ['polling'], 'connect': 'open', 'polls': seq, 'app': ['send', 'disconnect']})
        for seq in (['close'], ['s400'], ['msg', 'close']):
            ps.append({'impl': impl, 'transports': ['websocket'], 'connect': '-', 'ws': ['accept', 'open'], 'polls': seq})
        ps.append({'impl': impl, 'transports': ['websocket'], 'connect': '-', 'ws': ['accept', 'open'], 'polls': ['msg'], 'app': ['disconnect']})
        ps.append({'impl': impl, 'transports': None, 'connect': 'open_up', 'ws': ['accept', 'probe_ok'], 'polls': ['close']})
        # the first server offered an upgrade, the second does not: nothing of the first OPEN packet may survive
        for beh in (['accept', 'probe_ok'], ['refuse'], ['accept', 'probe_wrong']):
            ps.append({'impl': impl, 'transports': None, 'connect': 'open_up', 'ws': beh, 'polls': ['close'], 'transports2': None})
    return ps

def scenario_class(p):
    eff = p.get('effects') or {}
    if eff:
        k = sorted(eff)[0]
        if eff[k][0] == 'sleep':
            return 'suspending_%s_handler' % k
        return 'handler:%s:%s' % (k, eff[k][0])
    tr0 = (p['transports'] or ['polling'])[0]
    if tr0 == 'websocket':
        beh = p.get('ws', ['accept', 'open'])
        if beh != ['accept', 'open']:
            return 'wsopen:' + '+'.join(beh)
    elif p['connect'] == 'open_up':
        beh = p.get('ws', ['accept', 'probe_ok'])
        if beh != ['accept', 'probe_ok']:
            return 'upgrade:' + '+'.join(beh)
    elif p['connect'] in CONNECT_FAIL:
        return 'connect:' + p['connect']
    if p.get('posts'):
        return 'post:' + p['posts'][0]
    if p.get('app'):
        return 'app:' + '+'.join(p['app'])
    return 'steady:' + (p.get('polls') or ['-'])[-1]


def param_list(ctx):
    ps = []
    depth = 2 if ctx.quick else 3
    for impl in ('sync', 'async'):
        # 1. connect answers on polling
        for ca in CONNECT_FAIL + CONNECT_OK:
            ps.append({'impl': impl, 'transports': ['polling'], 'connect': ca, 'polls': ['close'] if ca in CONNECT_OK else []})
        for ca in ('open_close', 'open_more_close'):
            ps.append({'impl': impl, 'transports': ['polling'], 'connect': ca, 'polls': []})
            ps.append({'impl': impl, 'transports': ['polling'], 'connect': ca, 'polls': [], 'effects': {'disconnect': ['sleep', 0.25]}})
            ps.append({'impl': impl, 'transports': ['polling'], 'connect': ca, 'polls': [], 'legacy': True})
        # 2. poll answer sequences
        for k in range(1, depth + 1):
            for seq in itertools.product(POLL_MENU, repeat=k):
                if any(a in ('close', 'garbage', 's400', 'err', 'silence') for a in seq[:-1]):
                    continue      # the connection ended before the later answers
                ps.append({'impl': impl, 'transports': ['polling'], 'connect': 'open', 'polls': list(seq)})
        # 3. application actions racing the server script, and handler-initiated disconnects
        for seq in (['msg'], ['ping', 'msg'], ['close'], ['s400'], ['silence'], ['msg', 'noop', 'close']):
            for app in (['disconnect'], ['send'], ['send', 'disconnect'], ['disconnect', 'disconnect']):
                for posts in ([], ['s400'], ['err']):
                    if posts and 'send' not in app:
                        continue
                    ps.append({'impl': impl, 'transports': ['polling'], 'connect': 'open', 'polls': seq, 'app': app, 'posts': posts})
            for hk in ('connect', 'message', 'disconnect'):
                ps.append({'impl': impl, 'transports': ['polling'], 'connect': 'open_more' if hk != 'connect' else 'open',
                           'polls': seq, 'effects': {hk: ['disconnect']}})
            ps.append({'impl': impl, 'transports': ['polling'], 'connect': 'open_more', 'polls': seq, 'effects': {'message': ['raise']}})
            # the disconnect handler suspends for a while: whatever the server does meanwhile must not produce a second event
            ps.append({'impl': impl, 'transports': ['polling'], 'connect': 'open', 'polls': seq, 'app': ['disconnect'],
                       'effects': {'disconnect': ['sleep', 0.25]}})
        # 4. WebSocket-only connections
        for beh in (['refuse'], ['accept', 'open'], ['accept', 'nonopen'], ['accept', 'garbage'], ['accept', 'close'], ['accept', 'silence']):
            ps.append({'impl': impl, 'transports': ['websocket'], 'connect': '-', 'ws': beh, 'polls': ['close'] if beh == ['accept', 'open'] else []})
        for k in range(1, 3):
            for seq in itertools.product(POLL_MENU, repeat=k):
                if any(a in ('close', 'garbage', 's400', 'err', 'silence') for a in seq[:-1]):
                    continue
                ps.append({'impl': impl, 'transports': ['websocket'], 'connect': '-', 'ws': ['accept', 'open'], 'polls': list(seq)})
        for app in (['disconnect'], ['send', 'disconnect']):
            ps.append({'impl': impl, 'transports': ['websocket'], 'connect': '-', 'ws': ['accept', 'open'], 'polls': ['msg'], 'app': app})
        ps.append({'impl': impl, 'transports': ['websocket'], 'connect': '-', 'ws': ['accept', 'open'], 'polls': ['msg'],
                   'effects': {'connect': ['disconnect']}})
        for seq in (['close'], ['s400'], ['msg', 'close']):
            ps.append({'impl': impl, 'transports': ['websocket'], 'connect': '-', 'ws': ['accept', 'open'], 'polls': seq,
                       'app': ['disconnect'], 'effects': {'disconnect': ['sleep', 0.25]}})
        # 4b. healthy connections over several heartbeat cycles of ping_interval + 3/8 s, ended by the server
        for tr, extra in ((['polling'], {'connect': 'open'}), (['websocket'], {'connect': '-', 'ws': ['accept', 'open']}),
                          (None, {'connect': 'open_up', 'ws': ['accept', 'probe_ok']})):
            for nb in ((4,) if ctx.quick else (3, 5)):
                ps.append(dict({'impl': impl, 'transports': tr, 'polls': ['ping'] * nb + ['close'], 'spacing': 1.375}, **extra))
        # 4c. a heartbeat announced as 1500 / 500 ms: the first PING comes after 1.75 s, within the announced bound
        for tr, extra in ((['polling'], {'connect': 'open'}), (['websocket'], {'connect': '-', 'ws': ['accept', 'open']}),
                          (None, {'connect': 'open_up', 'ws': ['accept', 'probe_ok']})):
            ps.append(dict({'impl': impl, 'transports': tr, 'polls': ['ping', 'close'], 'spacing': 1.75, 'frac': True}, **extra))
        # 4e. the threaded client with a connection timeout of its own for the WebSocket: the heartbeat timing is still the server's
        if impl == 'sync':
            for tr, extra in ((['websocket'], {'connect': '-', 'ws': ['accept', 'open']}), (None, {'connect': 'open_up', 'ws': ['accept', 'probe_ok']})):
                ps.append(dict({'impl': impl, 'transports': tr, 'polls': ['ping', 'ping', 'close'], 'spacing': 1.375, 'ws_timeout': 0.25}, **extra))
        # 4d. an application written for the older API: a disconnect handler without a reason argument behind a pass-through decorator
        for tr, extra in ((['polling'], {'connect': 'open'}), (['websocket'], {'connect': '-', 'ws': ['accept', 'open']})):
            for seq, app in ((['msg', 'close'], []), (['msg'], ['disconnect']), (['err'], [])):
                ps.append(dict({'impl': impl, 'transports': tr, 'polls': seq, 'app': app, 'legacy': True}, **extra))
        # 5. upgrade attempts
        for beh in (['refuse'], ['accept', 'probe_ok'], ['accept', 'probe_wrong'], ['accept', 'probe_silence'],
                    ['accept', 'probe_close'], ['accept', 'probe_garbage'], ['accept', 'probe_ok_drop']):
            for seq in (['close'], ['msg', 'close'], ['silence'], ['err']):
                ps.append({'impl': impl, 'transports': None, 'connect': 'open_up', 'ws': beh, 'polls': seq})
            ps.append({'impl': impl, 'transports': None, 'connect': 'open_up', 'ws': beh, 'polls': ['msg'], 'app': ['send', 'disconnect']})
    return ps


def _short(choices):
    t = ''.join(map(str, choices))
    return t if len(t) <= 90 else t[:90] + '...(%d points)' % len(t)


def run(ctx):
    rep = report.Report('C08', 'model_checking')
    bound = 1 if ctx.quick else 2
    params = param_list(ctx)
    if not ctx.quick:
        params = [dict(q, _free_switch=True) for q in params]
        bound = 1       # with free switching one deviation already covers what two did under the charged model
    st, viols, samples, gate = core.run_search(Lifecycle, params, bound, ctx.workers, ctx.seed)
    rps = reconnect_params()
    st_r, viols_r, _, _ = core.run_search(Reconnect, rps, bound, ctx.workers, ctx.seed)
    st.merge(st_r)
    # a write of the client failing in the middle of a flush (scenario class shared with C09, judged here on the lifecycle)
    from vf.checks import c09_client_conduct as c09
    st_w, viols_w, _, _ = core.run_search(c09.WriteFault, c09.write_fault_params('c08'), 0, ctx.workers, ctx.seed)
    st.merge(st_w)
    for v in viols_w:
        v['params'] = dict(v['params'], _write_fault=True)
    viols += viols_w
    for v in viols_r:
        v['params'] = dict(v['params'], _reconnect=True)
    viols += viols_r
    for v in viols:
        pr = v['params']
        rep.add(report.Violation(
            dict({'impl': pr['impl'], 'kind': v['kind']}, **v['sig']),
            '[%s %s] %s  (choices=%s)' % (pr['impl'], report.dumps({k: pr[k] for k in pr if k != 'impl'}, sort_keys=True),
                                         v['text'], _short(v['choices'])),
            {'params': pr, 'choices': v['choices']}, weight=(v['dev'], len(v['choices']))))
    rep.coverage = {
        'states': len(st.outcomes), 'transitions': st.points, 'traces_validated_against_impl': st.executions,
        'samples': samples[:4],
        'evaluations': st.executions, 'distinct_nontrivial': len(st.outcomes),
        'rule': 'server behaviours: %d connect answers; every poll-answer sequence of length <= %d over %r; POST answers %r; '
                'WebSocket connect/first-frame behaviours; probe behaviours; application scripts (send / disconnect / both / twice) '
                'and handler-initiated disconnects as a parallel script; x {Client, AsyncClient}; all interleavings at quiescence '
                'and <= %d deviation(s); epilogue with wait(), no-op calls and a second connect(); plus early-reconnect scenarios (the application calls connect() again 3 s after the disconnect event, before the timers of the old connection have run out; the second connection, left in silence, must last until its own read timeout); write-fault scenarios (the k-th write of a batch of sends fails once: exactly one transport-error disconnect, clean state). states = distinct (scenario, '
                'event log, outcome) digests.' % (len(CONNECT_FAIL + CONNECT_OK) + 1, 2 if ctx.quick else 3, POLL_MENU, POST_MENU, bound),
        'exhaustive': True, 'bound_completed': bound, 'caps_hit': st.caps, 'scenarios': len(params),
        'executions_by_deviations': {str(k): v for k, v in sorted(st.by_dev.items())},
        'max_decision_points': st.max_points, 'determinism_gate': gate,
    }
    rep.assumptions = [
        'requests / websocket-client / aiohttp are replaced by contract-level fakes (DESIGN S6); every fake I/O operation suspends once',
        'when several end causes occurred before the disconnect event fired, the reason of any of them is accepted',
        'virtual time: client-side request and read timeouts fire exactly at their deadlines',
    ]
    return rep


def replay(ctx, payload):
    r = report.unbytes(payload['replay'])
    cls = Reconnect if r['params'].pop('_reconnect', False) else Lifecycle
    if r['params'].pop('_write_fault', False):
        from vf.checks import c09_client_conduct as c09
        cls = c09.WriteFault
    ex = core.execute(cls, r['params'], r['choices'], want_labels=True)
    for lab in ex.labels:
        print('  ', lab)
    print('observation:', ex.obs)
    for v in ex.violations:
        print('REPLAY VIOLATION:', v)
    return 1 if ex.violations else 0
