"""C14 Inbound size and volume limits are exact and nothing oversize reaches
the application.

Exhaustive enumeration of body / declared / frame lengths in a window around
every configured limit, packet counts around the per-body limit, ASGI body
chunkings, and four WebSocket stages, on both servers; short histories (the
request or frame followed by a run to a virtual-time horizon and probes of
session liveness).
"""
import base64
import itertools

from vf import report
from vf.explore import parallel
from vf.vworld import peer

LIMITS = [1, 2, 5, 10, 100, 1000000]
HORIZON = 8.0


def body_of(kind, n):
    """An n-byte body made of one packet (n >= 1) of the given kind."""
    if n <= 0:
        return b''
    if kind == 'text':
        return ('4' + 'a' * (n - 1)).encode()
    if kind == 'utf8':
        # n bytes, about half as many characters: two-byte characters after the type digit (the limit is one of bytes)
        k = (n - 1) // 2
        return ('4' + '\u00e9' * k + 'a' * (n - 1 - 2 * k)).encode('utf-8')
    # base64: 'b' + 4k chars; pad with a leading text packet when needed
    k = (n - 1) // 4
    raw = b'\x01' * (3 * k)
    s = 'b' + base64.b64encode(raw).decode()
    s = s[:n] if len(s) >= n else s + '=' * 0
    if len(s) < n:
        s = s + '\x1e4' + 'a' * (n - len(s) - 2) if n - len(s) >= 2 else '4' + 'a' * (n - 1)
    return s.encode()


def lengths_for(L):
    ls = {0, 1, L - 2, L - 1, L, L + 1, L + 2, 10 * L if L < 1000000 else L + 1000}
    return sorted(x for x in ls if x >= 0)


def declared_for(actual, L):
    return sorted({actual, max(0, actual - 1), actual + 1, L, L + 1, 0})


def blocked_info(w, h):
    site = w.blocked_site(h)
    return site[-1] if site else 'unknown'


def V(out, impl, kind, trigger, text, case, site=''):
    out.append(report.Violation({'impl': impl, 'kind': kind, 'trigger': trigger, 'site': site},
                                '[%s] %s  case=%s' % (impl, text, report.dumps(case, sort_keys=True)),
                                {'impl': impl, 'case': case}, weight=(0, len(report.dumps(case)))))


def session_dead(w, sid):
    return sid not in w.live_sids()


def run_post_case(impl, case, out):
    """case: dict(L, n, declared, kind, chunks, poll)"""
    L, n, declared = case['L'], case['n'], case['declared']
    if case.get('positional'):
        # the limit is the third option after async_mode: Server('threading', 2, 1, L)
        w = peer.make_world(impl, server_kwargs=dict(_positional=(2, 1, L)))
    else:
        w = peer.make_world(impl, server_kwargs=dict(max_http_buffer_size=L, ping_interval=2, ping_timeout=1))
    try:
        sid = peer.sid_of(peer.open_polling(w))
        if sid is None and L < 120:
            # the OPEN packet itself does not depend on the limit; an open must work
            V(out, impl, 'open_failed', 'open', 'open failed with limit %d' % L, case)
            return
        pending = peer.poll(w, sid, run=True) if case['poll'] else None
        body = body_of(case['kind'], n)
        chunks = None
        if case['chunks'] == 'bytes' and n > 0:
            step = max(1, n // 7)
            chunks = [body[i:i + step] for i in range(0, n, step)]
        nev = len(w.events)
        if case['chunks'] == 'short':
            # a gateway whose input stream hands over what has arrived so far: the first read returns half of what was asked
            r = w.http('POST', peer.BASEQ + '&sid=' + sid, body=body, declared=declared, short_first=max(1, min(declared, n) // 2))
            w.run()
        else:
            r = peer.post(w, sid, body, declared=declared, chunks=chunks)
        w.run_until(w.now + HORIZON)
        msgs = [e for e in w.events[nev:] if e[0] == 'message']
        disc = [e for e in w.events[nev:] if e[0] == 'disconnect']
        limit = min(declared, L)
        # (a) bytes read from the gateway
        if impl == 'sync':
            bad = [x for x in r.reads if x < 0 or x > limit]
            if bad:
                V(out, impl, 'read_beyond_limit', 'declared>%s' % ('L' if declared > L else 'ok'),
                  'wsgi.input.read(%r) with declared=%d limit=%d' % (bad, declared, L), case)
            elif r.taken > limit:
                V(out, impl, 'read_beyond_limit', 'short_read', '%d bytes taken from wsgi.input in reads %r with declared=%d limit=%d'
                  % (r.taken, r.reads, declared, L), case)
            if case['chunks'] == 'short':
                return        # what a truncated first read delivers is not judged; only how much is taken from the stream
        else:
            consumed = sum(r.reads)
            needed = 0
            for c in (chunks or []):
                if needed >= limit and needed > 0:
                    break
                needed += len(c)
            if chunks and len(chunks) > 1 and consumed > max(needed, len(chunks[0])):
                V(out, impl, 'read_beyond_limit', 'asgi_chunked_body',
                  'ASGI adapter consumed %d body bytes in %d chunks; declared=%d limit=%d' % (consumed, len(r.reads), declared, L),
                  case, site='asgi.py:translate_request')
        # (b) nothing from an over-limit declaration reaches the handler
        if declared > L and msgs:
            V(out, impl, 'oversize_data_delivered', 'post', 'message events %r from a body declared %d > %d' % ([m[2] for m in msgs], declared, L), case)
        for m in msgs:
            size = len(m[2]) if isinstance(m[2], (str, bytes)) else 0
            if size > max(0, limit - 1):
                V(out, impl, 'oversize_data_delivered', 'post', 'handler got %d bytes, limit %d' % (size, limit), case)
        # (c)/(d) status and session fate
        if not r.done:
            V(out, impl, 'blocked_forever', 'oversize_post' if declared > L else 'post',
              'POST still unanswered after %.0fs of virtual time, parked in %s' % (HORIZON, w.blocked_site(r)),
              case, site=blocked_info(w, r))
        elif r.exc:
            V(out, impl, 'exception_escaped', 'post', 'POST raised %s at %s' % (r.exc['type'], r.exc['site']), case)
        elif declared > L:
            if r.status != 400:
                V(out, impl, 'oversize_not_refused', 'post', 'status %r for declared %d > limit %d' % (r.status, declared, L), case)
            if not session_dead(w, sid) or len(disc) != 1:
                V(out, impl, 'oversize_did_not_end_session', 'post', 'session alive=%s disconnect events=%d' % (not session_dead(w, sid), len(disc)), case)
        else:
            if r.status != 200:
                V(out, impl, 'within_limit_refused', 'post', 'status %r for declared %d <= limit %d' % (r.status, declared, L), case)
            if case['kind'] == 'text' and declared >= n and n >= 1:
                want = 'a' * (n - 1)
                if [m[2] for m in msgs] != [want] and not (n - 1 > 0 and want.isdigit()):
                    V(out, impl, 'within_limit_not_delivered', 'post', 'message events %r, want one of %d chars' % ([m[2] for m in msgs][:2], n - 1), case)
    finally:
        w.teardown()


def run_count_case(impl, k, out, form=None):
    import urllib.parse
    w = peer.make_world(impl, server_kwargs=dict(ping_interval=2, ping_timeout=1))
    case = {'packets': k, 'form': form}
    try:
        sid = peer.sid_of(peer.open_polling(w))
        peer.poll(w, sid)
        body = '\x1e'.join('4m%d' % i for i in range(k))
        if form == 'quote':
            body = 'd=' + urllib.parse.quote(body, safe='')
        elif form == 'quote_plus':
            body = 'd=' + urllib.parse.quote_plus(body)
        elif form == 'raw':
            body = 'd=' + body
        r = peer.post(w, sid, body)
        w.run_until(w.now + HORIZON)
        msgs = [e[2] for e in w.events if e[0] == 'message']
        want = ['m%d' % i for i in range(k)] if k <= 16 else []
        if msgs != want:
            V(out, impl, 'packet_limit', 'count=%d' % k, '%d packets in one body: %d message events' % (k, len(msgs)), case)
        if not r.done:
            V(out, impl, 'blocked_forever', 'count', 'POST unanswered, parked in %s' % w.blocked_site(r), case, site=blocked_info(w, r))
        elif r.exc:
            V(out, impl, 'exception_escaped', 'count', 'POST raised %s' % r.exc['type'], case)
    finally:
        w.teardown()


class _SleepyDisconnect:
    """Application whose disconnect handler takes 0.25 s of virtual time."""
    def connect(self, sid, environ):
        return []

    def message(self, sid, data):
        return []

    def disconnect(self, sid, reason):
        return [('sleep', 0.25)]


def run_closing_case(impl, case, out):
    """An oversize (or boundary) POST that arrives while the session is in the middle of closing."""
    L, declared, how = case['L'], case['declared'], case['how']
    w = peer.make_world(impl, server_kwargs=dict(max_http_buffer_size=L, ping_interval=2, ping_timeout=1),
                        behaviour=_SleepyDisconnect())
    try:
        sid = peer.sid_of(peer.open_polling(w))
        peer.poll(w, sid)
        body = ('4' + 'a' * (declared - 1)).encode()
        if how.startswith('then_'):
            # the other way round: the POST under test comes first (if it is oversize its own close suspends in the
            # disconnect handler) and something else removes the session before it resumes
            nev = len(w.events)
            r = peer.post(w, sid, body, declared=declared)
            if how == 'then_post':
                peer.post(w, sid, '4x')
            elif how == 'then_close':
                peer.post(w, sid, '1')
            else:
                w.call('disconnect', sid)
                w.run()
        else:
            if how == 'post_close':
                peer.post(w, sid, '1')
            else:
                w.call('disconnect', sid)
                w.run()
            # the disconnect handler is now asleep; the session is closing but not closed
            nev = len(w.events)
            r = peer.post(w, sid, body, declared=declared)
        w.run_until(w.now + HORIZON)
        limit = min(declared, L)
        if impl == 'sync':
            bad = [x for x in r.reads if x < 0 or x > limit]
            if bad:
                V(out, impl, 'read_beyond_limit', 'post_while_closing',
                  'wsgi.input.read(%r) with declared=%d limit=%d while the session was closing' % (bad, declared, L), case)
        msgs = [e for e in w.events[nev:] if e[0] == 'message']
        if declared > L and msgs:
            V(out, impl, 'oversize_data_delivered', 'post_while_closing', 'message events %r' % [str(m[2])[:10] for m in msgs], case)
        if not r.done:
            V(out, impl, 'blocked_forever', 'post_while_closing', 'POST unanswered, parked in %s' % w.blocked_site(r), case,
              site=blocked_info(w, r))
        elif r.exc:
            V(out, impl, 'exception_escaped', 'post_while_closing', 'POST raised %s at %s' % (r.exc['type'], r.exc['site']), case)
        elif declared > L and r.status != 400:
            V(out, impl, 'oversize_not_refused', 'post_while_closing', 'status %r' % r.status, case)
    finally:
        w.teardown()


def run_small_limit_case(impl, case, out):
    """Limits smaller than the 6-character probe: whatever becomes of the handshake, no frame longer than the limit may
    reach the application, at any later stage of that socket."""
    L = case['L']
    w = peer.make_world(impl, server_kwargs=dict(max_http_buffer_size=L, ping_interval=2, ping_timeout=1))
    try:
        sid = peer.sid_of(peer.open_polling(w))
        s = peer.ws_upgrade(w, sid)
        for f in ['2probe', '5'] + case['frames']:
            if s.done:
                break
            w.ws_send(s, f)
            w.run()
        w.run_until(w.now + 0.25)
        for e in w.events:
            if e[0] == 'message':
                size = len(e[2]) if isinstance(e[2], (str, bytes)) else 0
                if size + 1 > L:
                    V(out, impl, 'oversize_data_delivered', 'small_limit_upgrade',
                      'handler got %r (frame of %d characters) with max_http_buffer_size=%d' % (e[2], size + 1, L), case)
    finally:
        w.teardown()


def frame_of(kind, n):
    if kind == 'text':
        return '4' + 'a' * (n - 1) if n >= 1 else ''
    return b'\x07' * n


def run_frame_case(impl, case, out):
    """case: dict(L, n, kind, stage, poll)"""
    L, n, stage = case['L'], case['n'], case['stage']
    w = peer.make_world(impl, server_kwargs=dict(max_http_buffer_size=L, ping_interval=2, ping_timeout=1))
    try:
        frame = frame_of(case['kind'], n)
        over = n > L
        if stage == 'ws_first':
            s = peer.ws_open(w)
            sid = [e[1] for e in w.events if e[0] == 'connect'][-1]
            pending = None
        else:
            sid = peer.sid_of(peer.open_polling(w))
            w.call('send', sid, 'queued')
            w.run()
            pending = None
            s = peer.ws_upgrade(w, sid)
            if case['poll']:
                pending = peer.poll(w, sid)
            if stage in ('second', 'steady'):
                w.ws_send(s, '2probe')
                w.run()
            if stage == 'steady':
                w.ws_send(s, '5')
                w.run()
        nev = len(w.events)
        if case.get('fail_close'):
            s.fail_close = True       # the peer is gone by the time the server closes: writing the close frame fails
        w.ws_send(s, frame)
        w.run()
        if over and stage in ('probe', 'second'):
            # judge usability right away, before the (unanswered) heartbeat reaps the session
            w.run_until(w.now + 0.25)
        else:
            if over:
                # the oversize frame itself ends the session - not the heartbeat a few seconds later
                w.run_until(w.now + 0.25)
                if not session_dead(w, sid):
                    V(out, impl, 'oversize_did_not_end_session', 'frame:' + stage,
                      'a quarter second after the %d-long frame (limit %d) the session is still alive' % (n, L), case)
            w.run_until(w.now + HORIZON)
        msgs = [e for e in w.events[nev:] if e[0] == 'message']
        disc = [e for e in w.events if e[0] == 'disconnect']
        if over:
            if msgs:
                V(out, impl, 'oversize_data_delivered', 'frame:' + stage, 'message events %r from a %d-long frame, limit %d' % ([str(m[2])[:10] for m in msgs], n, L), case)
            dead = session_dead(w, sid)
            if stage in ('ws_first', 'steady'):
                if not dead or len(disc) != 1:
                    V(out, impl, 'oversize_did_not_end_session', 'frame:' + stage, 'alive=%s disconnects=%d' % (not dead, len(disc)), case)
            else:
                # handshake: ended cleanly, or still a fully working polling session (DESIGN S4)
                if not dead:
                    w.call('send', sid, 'after')
                    w.run()
                    g = peer.poll(w, sid)
                    w.run_until(w.now + 1.0)
                    got = peer.decode_body(g.text()) if g.done and g.status == 200 else None
                    if got is None or (4, 'after') not in got:
                        V(out, impl, 'wedged_after_oversize_handshake_frame', 'frame:' + stage,
                          'session neither ended nor usable on polling: poll done=%s status=%r body=%r' % (g.done, g.status, g.body), case)
                elif len(disc) != 1:
                    V(out, impl, 'oversize_did_not_end_session', 'frame:' + stage, 'dead but %d disconnect events' % len(disc), case)
        else:
            if stage in ('ws_first', 'steady') and n >= 1:
                want = 'a' * (n - 1) if case['kind'] == 'text' else b'\x07' * n
                if [m[2] for m in msgs] != [want] and not (isinstance(want, str) and want == ''):
                    V(out, impl, 'within_limit_not_delivered', 'frame:' + stage, 'frame of %d <= limit %d: message events %r' % (n, L, [str(m[2])[:12] for m in msgs]), case)
    finally:
        w.teardown()


def _work(chunk):
    out = []
    n = 0
    for kind, impl, case in chunk:
        try:
            if kind == 'post':
                run_post_case(impl, case, out)
            elif kind == 'closing':
                run_closing_case(impl, case, out)
            elif kind == 'small':
                run_small_limit_case(impl, case, out)
            elif kind == 'count':
                if isinstance(case, dict):
                    run_count_case(impl, case['packets'], out, case.get('form'))
                else:
                    run_count_case(impl, case, out)
            else:
                run_frame_case(impl, case, out)
        except report.Livelock as e:
            out.append(report.livelock_violation(impl, e, {'impl': impl, 'case': case if isinstance(case, dict) else {'packets': case}}))
        n += 1
    return [v.to_json() for v in out], n


def jobs_for(ctx):
    jobs = []
    for impl in ('sync', 'async'):
        for L in LIMITS:
            for n in lengths_for(L):
                if n > 3000000:
                    continue
                for declared in declared_for(n, L):
                    for kind in ('text', 'b64') + (('utf8',) if L >= 5 and n >= 4 else ()):
                        for chunks in (('one', 'bytes') if impl == 'async' else ('one', 'short') if declared > 1 and n > 1 else ('one',)):
                            for poll in (True,) if ctx.quick else (True, False):
                                jobs.append(('post', impl, {'L': L, 'n': n, 'declared': declared, 'kind': kind,
                                                            'chunks': chunks, 'poll': poll}))
                    if L in (5, 100) and declared == n:
                        jobs.append(('post', impl, {'L': L, 'n': n, 'declared': declared, 'kind': 'text', 'chunks': 'one', 'poll': True,
                                                    'positional': True}))
        for k in range(0, 19):
            jobs.append(('count', impl, k))
            if k >= 1:
                for form in ('quote', 'quote_plus', 'raw'):
                    jobs.append(('count', impl, {'packets': k, 'form': form}))
        for k in (40, 100):
            for form in (None, 'quote'):
                jobs.append(('count', impl, {'packets': k, 'form': form}))
        for L in (1, 2, 3, 4, 5):
            for n in range(L, 8):
                jobs.append(('small', impl, {'L': L, 'frames': ['4' + 'a' * (n - 1), '4' + 'b' * (n - 1)]}))
        for L in (10, 100):
            for declared in (L - 1, L, L + 1, 10 * L):
                for how in ('post_close', 'api_disconnect', 'then_post', 'then_close', 'then_disconnect'):
                    jobs.append(('closing', impl, {'L': L, 'declared': declared, 'how': how}))
        for L in [6, 10, 100, 1000000]:
            for n in sorted({1, L - 1, L, L + 1, L + 2, 10 * L if L < 1000000 else L + 1000}):
                for kind in ('text', 'binary'):
                    for stage in ('ws_first', 'probe', 'second', 'steady'):
                        for poll in (False, True):
                            if stage == 'ws_first' and poll:
                                continue
                            jobs.append(('frame', impl, {'L': L, 'n': n, 'kind': kind, 'stage': stage, 'poll': poll}))
                            if n > L and stage in ('ws_first', 'steady') and not poll:
                                jobs.append(('frame', impl, {'L': L, 'n': n, 'kind': kind, 'stage': stage, 'poll': poll, 'fail_close': True}))
    return jobs


def run(ctx):
    rep = report.Report('C14', 'exploration')
    jobs = jobs_for(ctx)
    res = parallel.pmap_chunks(_work, parallel.split(jobs, ctx.workers * 4), ctx.workers, ctx.seed, maxtasks=8)
    n = 0
    for vs, k in res:
        n += k
        for v in vs:
            rep.add(report.Violation.from_json(v))
    rep.coverage = {
        'evaluations': n,
        'distinct_nontrivial': n,
        'rule': 'limits %r; POST bodies of length {0,1,L-2..L+2,10L} x declared length {actual,actual+-1,L,L+1,0} x '
                '{text, base64} x ASGI chunking {one, many}%s; 0..18 (and 40, 100) packets per body, plain and as d= form bodies (quote, quote_plus, raw separators); frames of length '
                '{1,L-1,L,L+1,L+2,10L} x {text,binary} x stage {first frame of a ws-only session, probe frame, second '
                'handshake frame, steady state} x pending poll; POSTs around the limit arriving while the session is in the middle of closing (disconnect handler suspended), and the reverse order (the POST first, then another POST / CLOSE / disconnect(sid) while its close is suspended); oversize frames also with a peer that is gone when the server closes (writing the close frame fails); every case followed by %.0fs of virtual time and '
                'liveness probes; both servers. All cases distinct.' % (LIMITS, '' if ctx.quick else ' x pending poll on/off', HORIZON),
        'samples': [jobs[0][2], jobs[len(jobs) // 2][2], jobs[-1][2]],
        'exhaustive': True,
    }
    rep.assumptions = [
        'boundary frames and bodies are ASCII so length in characters and bytes coincide',
        'on ASGI a single-chunk body is necessarily handed over whole; reading beyond the limit is judged on multi-chunk bodies only',
        'an oversize frame during the upgrade handshake may either end the session or leave a working polling session (DESIGN S4)',
    ]
    return rep


def replay(ctx, payload):
    r = payload['replay']
    out = []
    c = r['case']
    if isinstance(c, dict) and 'how' in c:
        run_closing_case(r['impl'], c, out)
    elif isinstance(c, dict) and 'frames' in c:
        run_small_limit_case(r['impl'], c, out)
    elif isinstance(c, dict) and 'stage' in c:
        run_frame_case(r['impl'], c, out)
    elif isinstance(c, dict) and 'packets' in c:
        run_count_case(r['impl'], c['packets'], out, c.get('form'))
    else:
        run_post_case(r['impl'], c, out)
    for v in out:
        print('REPLAY VIOLATION:', v.text)
    print('replayed; violations=%d' % len(out))
    return 1 if out else 0
