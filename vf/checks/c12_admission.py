"""C12 Request admission: only well-addressed version-4 requests are let in.

Exhaustive product of method x EIO x transport x sid kind x Upgrade/Connection
headers x JSONP index x configured transports, each request issued against a
world replayed into a prepared state (sessions of every kind plus a bystander
holding queued packets). Refusals must leave the digest of all live sessions,
the event log and the set of live ids unchanged.
"""
import itertools

from vf import report
from vf.explore import digest, parallel
from vf.vworld import base, peer

METHODS = ['GET', 'POST', 'OPTIONS', 'PUT', 'DELETE', 'HEAD']
EIOS = [None, '4', '3', '5', '', '44', '4&EIO=3']      # the last: the parameter given twice, the first value being the right one
TRANSPORTS = [None, 'polling', 'websocket', 'bogus', 'poll', 'socket']     # the last two: proper substrings of the real names
SIDKINDS = ['absent', 'live_polling', 'live_upgraded', 'mid_upgrade', 'closed', 'unknown', 'rejected', 'closing', 'suffixed', 'prefix']
HDRS = ['none', 'both', 'upgrade_only', 'connection_only', 'other_protocol', 'both_mixed']   # both_mixed: the same two headers, other letter case
JS = [None, '0', '5', 'x', '']
CFGS = ['both', 'polling', 'websocket', 'no_upgrades']     # no_upgrades: both transports, allow_upgrades=False (governs the advertisement only)


class RejectOnHeader(base.Behaviour):
    def connect(self, sid, environ):
        if environ.get('HTTP_X_REJECT'):
            return [('return', False)]
        return []

    def disconnect(self, sid, reason):
        # sessions listed in `sleepy` stay in the middle of their close: the handler never returns within the world's life
        if sid in getattr(self, 'sleepy', ()):
            return [('sleep', 100000.0)]
        return []


STR_CFGS = ['polling_str', 'websocket_str']      # the transports option given as a bare string instead of a list


def prepare(impl, cfg):
    kw = {}
    if cfg.endswith('_str'):
        kw['transports'] = cfg[:-4]
        cfg = cfg[:-4]
    if cfg == 'no_upgrades':
        kw['allow_upgrades'] = False
    if 'transports' in kw:
        pass
    elif cfg == 'polling':
        kw['transports'] = ['polling']
    elif cfg == 'websocket':
        kw['transports'] = ['websocket']
    w = peer.make_world(impl, server_kwargs=kw, behaviour=RejectOnHeader())
    sids = {'unknown': 'nosuchsessionid00000'}
    keep = {}
    if cfg == 'websocket':
        e = peer.ws_open(w)
        esid = [ev[1] for ev in w.events if ev[0] == 'connect'][-1]
        b = peer.ws_open(w)
        sids['live_upgraded'] = [ev[1] for ev in w.events if ev[0] == 'connect'][-1]
        keep['ws'] = [e, b]
        r = w.ws(peer.WSQ, headers={'X-Reject': '1'})
        w.run()
        sids['rejected'] = [ev[1] for ev in w.events if ev[0] == 'connect'][-1]
    else:
        esid = peer.sid_of(peer.open_polling(w))
        sids['live_polling'] = peer.sid_of(peer.open_polling(w))
        w.call('send', sids['live_polling'], 'queued-a')
        if cfg in ('both', 'no_upgrades'):
            sids['live_upgraded'] = peer.sid_of(peer.open_polling(w))
            keep['up'] = peer.do_upgrade(w, sids['live_upgraded'])
            sids['mid_upgrade'] = peer.sid_of(peer.open_polling(w))
            mu = peer.ws_upgrade(w, sids['mid_upgrade'])
            w.ws_send(mu, '2probe')
            w.run()
            keep['mid'] = mu
        sids['closed'] = peer.sid_of(peer.open_polling(w))
        peer.post(w, sids['closed'], '1')
        # a session whose close is under way: the disconnect event has fired, its handler has not returned
        sids['closing'] = peer.sid_of(peer.open_polling(w))
        w.call('send', sids['closing'], 'queued-c')
        w.run()
        w.beh.sleepy = {sids['closing']}
        w.call('disconnect', sids['closing'])
        w.run()
        r = w.http('GET', peer.BASEQ, headers={'X-Reject': '1'})
        w.run()
        sids['rejected'] = [ev[1] for ev in w.events if ev[0] == 'connect'][-1]
    if 'live_polling' in sids:
        sids['suffixed'] = sids['live_polling'] + 'x'        # 21 characters: a live id plus one more
        sids['prefix'] = sids['live_polling'][:-1]           # 19 characters: a live id minus its last one
    w.call('send', esid, 'queued-1')
    w.call('send', esid, 'queued-2')
    w.run()
    sids['_bystander'] = esid
    w._keep = keep
    return w, sids


def snapshot(w):
    return report.dumps({'sessions': digest.sessions_state(w, live_only=True),
                         'events': [e[:3] for e in w.events],
                         'live': sorted(w.live_sids()),
                         'transports': {s: w.transport(s) for s in sorted(w.live_sids())}},
                        sort_keys=True)


def reference(method, eio, transport, sidkind, hdr, j, cfg):
    """-> (verdict, allowed_statuses) verdict in admit/refuse/open/any."""
    cfg = cfg[:-4] if cfg.endswith('_str') else cfg
    allowed = {'both': ['polling', 'websocket'], 'no_upgrades': ['polling', 'websocket'], 'polling': ['polling'], 'websocket': ['websocket']}[cfg]
    defects = set()
    if method not in ('GET', 'POST', 'OPTIONS'):
        defects.add('method')
    t = transport if transport is not None else 'polling'
    if t not in allowed:
        defects.add('transport')
    if sidkind == 'absent' and eio != '4':
        defects.add('version')
    if j is not None and j != '' and not j.lstrip('-').isdigit():
        defects.add('jsonp')
    upgrade = hdr in ('both', 'both_mixed')
    up_hdr_ws = hdr in ('both', 'upgrade_only', 'both_mixed')
    session_transport = {'live_polling': 'polling', 'mid_upgrade': 'polling', 'closing': 'polling',
                         'live_upgraded': 'websocket'}.get(sidkind)
    if method == 'GET':
        if sidkind == 'absent':
            if not (t == 'polling' or (t == 'websocket' and up_hdr_ws)):
                defects.add('upgrade')
            elif t == 'websocket' and not upgrade and not defects:
                return 'any', None   # Upgrade without Connection: upgrade on an open: C15 judges the response
        elif session_transport is None:
            defects.add('sid')
        else:
            if session_transport != t and not (t == 'websocket' and up_hdr_ws):
                defects.add('transport')
            if up_hdr_ws and 'websocket' not in allowed:
                defects.add('transport')
    elif method == 'POST':
        if session_transport is None:
            defects.add('sid')
    if sidkind == 'closing' and not defects:
        return 'any', None           # whether a well-addressed request for a session that is being closed is served is open
    if not defects:
        if method == 'OPTIONS':
            return 'admit', {200}
        if method == 'GET' and sidkind == 'absent':
            return 'open', {200}
        if method == 'GET' and session_transport == 'websocket' and upgrade:
            return 'any', None       # repeated upgrade of an upgraded session: C06's business
        if method == 'GET' and sidkind in ('live_polling', 'mid_upgrade') and t == 'websocket' and not upgrade:
            return 'any', None       # Upgrade header without Connection: upgrade -> plain read; open
        return 'admit', {200}
    if method == 'OPTIONS' and defects == {'sid'}:
        return 'any', None
    if j == '':
        pass
    if defects == {'method'}:
        return 'refuse', {405}
    if 'method' in defects:
        return 'refuse', {400, 405}
    return 'refuse', {400}


def build_request(method, eio, transport, sid, hdr, j):
    parts = []
    if eio is not None:
        parts.append('EIO=' + eio)
    if transport is not None:
        parts.append('transport=' + transport)
    if sid is not None:
        parts.append('sid=' + sid)
    if j is not None:
        parts.append('j=' + j)
    headers = {'both': {'Upgrade': 'websocket', 'Connection': 'Upgrade'},
               'upgrade_only': {'Upgrade': 'websocket'},
               'connection_only': {'Connection': 'Upgrade'},
               'other_protocol': {'Upgrade': 'h2c', 'Connection': 'Upgrade'},
               'both_mixed': {'Upgrade': 'WebSocket', 'Connection': 'upgrade'},
               'none': {}}[hdr]
    return '&'.join(parts), headers


def issue(w, impl, method, query, headers, hdr, body=None):
    """Returns (status, exc, pending, handle)."""
    hws = headers if hdr == 'both_mixed' else None
    if hdr in ('both', 'both_mixed') and method == 'GET' and impl == 'async':
        s = w.ws(query, headers=hws, upgrade_headers=True)
        w.run()
        if s.exc:
            return None, s.exc, False, s
        if s.accepted:
            return 200, None, not s.done, s
        return 400 if s.rejected else None, None, not s.done, s
    if hdr in ('both', 'both_mixed') and method == 'GET':
        s = w.ws(query, headers=hws, upgrade_headers=True)
        w.run()
        if s.exc:
            return None, s.exc, False, s
        if s.accepted:
            return 200, None, not s.done, s
        return s.status, None, not s.done, s
    r = w.http(method, query, headers=headers, body=body) if body is not None else w.http(method, query, headers=headers)
    w.run()
    if r.exc:
        return None, r.exc, False, r
    return r.status, None, not r.done, r


def run_cases(impl, cfg, cases, out, stats):
    w = None
    sids = None
    try:
        for case in cases:
            method, eio, transport, sidkind, hdr, j = case
            if w is not None and sidkind == 'closed' and sids.get('closed') not in w.table_sids():
                # the closed-but-unreaped entry was lazily reaped by an earlier request: re-prepare
                w.teardown()
                w = None
            if w is None:
                w, sids = prepare(impl, cfg)
                stats['worlds'] += 1
            if sidkind != 'absent' and sidkind not in sids:
                stats['skipped'] += 1
                continue
            sid = None if sidkind == 'absent' else sids[sidkind]
            verdict, allowed = reference(method, eio, transport, sidkind, hdr, j, cfg)
            query, headers = build_request(method, eio, transport, sid, hdr, j)
            before = snapshot(w)
            ntable = set(w.live_sids())
            status, exc, pending, h = issue(w, impl, method, query, headers, hdr,
                                            body=b'4late' if (sidkind == 'closing' and method == 'POST') else None)
            stats['requests'] += 1
            stats[verdict] = stats.get(verdict, 0) + 1
            dirty = True

            def V(kind, text, trigger):
                out.append(report.Violation(
                    {'impl': impl, 'kind': kind, 'trigger': trigger,
                     'site': (exc or {}).get('site', [''])[-1] if exc else ''},
                    '[%s cfg=%s] %s %s hdr=%s -> %s' % (impl, cfg, method, query, hdr, text),
                    {'impl': impl, 'cfg': cfg, 'case': list(case)}, weight=(0, len(query))))
            if sidkind == 'closing' and method == 'POST' and verdict == 'any':
                # whatever the status: the disconnect event of this session has fired, nothing it receives now becomes an event
                late = [e[:3] for e in w.events if e[1] == sid and e[0] == 'message']
                if late:
                    V('event_for_a_session_being_closed', 'status %r and message events %r for a session whose disconnect event had already fired'
                      % (status, late), 'sid=closing method=POST')
            if exc is not None:
                if verdict != 'any':
                    V('exception_escaped', 'raised %s: %s at %s' % (exc['type'], exc['text'], exc['site']),
                      'sid=' + sidkind)
            elif verdict == 'refuse':
                if status not in allowed:
                    V('admitted_or_wrong_status', 'status %r, reference refuses with %s' % (status, sorted(allowed)),
                      'sid=%s method=%s' % (sidkind, method))
                after = snapshot(w)
                if after != before:
                    V('refusal_had_effect', 'state of live sessions / event log changed by a refused request',
                      'sid=%s method=%s' % (sidkind, method))
                else:
                    dirty = False
            elif verdict in ('admit', 'open'):
                if status in (400, 405) or (status is None and not pending):
                    V('refused_valid_request', 'status %r for a well-addressed request' % (status,),
                      'sid=%s method=%s' % (sidkind, method))
                if verdict == 'open' and status == 200 and len(set(w.live_sids()) - ntable) != 1:
                    V('open_created_wrong_sessions', 'open created %d sessions' % len(set(w.live_sids()) - ntable),
                      'open')
                if verdict == 'admit' and method == 'OPTIONS' and snapshot(w) == before:
                    dirty = False
            if dirty:
                w.teardown()
                w = None
    finally:
        if w is not None:
            w.teardown()


OVERDUE_REQUESTS = [('GET', 'EIO=4&transport=websocket&sid=$', {}), ('GET', 'EIO=4&transport=bogus&sid=$', {}),
                    ('PUT', 'EIO=4&transport=polling&sid=$', {}), ('GET', 'EIO=3&transport=polling&sid=$x', {}),
                    ('GET', 'EIO=4&transport=polling&sid=$&j=x', {})]


def run_overdue(impl, out, stats):
    """A session whose PING has been unanswered for longer than ping_timeout but which nobody has looked at yet (no send, no
    sweep: monitoring is off): a refused request naming it still has no effect, and its late PONG is still taken."""
    for method, query, hdrs in OVERDUE_REQUESTS:
        w = peer.make_world(impl, server_kwargs=dict(ping_interval=1, ping_timeout=1, monitor_clients=False))
        stats['worlds'] += 1
        try:
            sid = peer.sid_of(peer.open_polling(w))
            w.run_until(2.25)
            before = snapshot(w)
            r = w.http(method, query.replace('$', sid), headers=hdrs)
            w.run()
            stats['requests'] += 1
            case = ['overdue', method, query]
            if r.exc or not r.done or r.status not in (400, 405):
                out.append(report.Violation({'impl': impl, 'kind': 'wrong_status', 'trigger': 'sid=overdue'},
                                            '[%s overdue session] %s %s -> exc=%r status=%r, reference refuses' % (impl, method, query, r.exc, r.status),
                                            {'impl': impl, 'cfg': 'overdue', 'case': case}, weight=(0, 0)))
            if snapshot(w) != before:
                out.append(report.Violation({'impl': impl, 'kind': 'refused_request_had_effect', 'trigger': 'sid=overdue'},
                                            '[%s overdue session] %s %s (refused) changed the state of live sessions / the event log: %r'
                                            % (impl, method, query, [e[:3] for e in w.events]),
                                            {'impl': impl, 'cfg': 'overdue', 'case': case}, weight=(0, 0)))
        finally:
            w.teardown()


def _work(chunk):
    out = []
    stats = {'worlds': 0, 'requests': 0, 'skipped': 0}
    for impl, cfg, cases in chunk:
        if cfg == 'overdue':
            run_overdue(impl, out, stats)
            continue
        try:
            run_cases(impl, cfg, cases, out, stats)
        except report.Livelock as e:
            out.append(report.livelock_violation(impl, e, {'impl': impl, 'cfg': cfg, 'case': list(cases[0])}))
    return [v.to_json() for v in out[:300]], stats, len(out)


def run(ctx):
    rep = report.Report('C12', 'exploration')
    if ctx.quick:
        hdrs, js = ['none', 'both', 'upgrade_only', 'other_protocol', 'both_mixed'], [None, 'x', '5']
    else:
        hdrs, js = HDRS, JS
    # the substring transports multiply only a reduced product (they differ from 'bogus' only where names are compared loosely)
    prod = list(itertools.product(METHODS, EIOS, TRANSPORTS[:4], SIDKINDS, hdrs, js))
    prod += list(itertools.product(['GET', 'POST'], ['4'], TRANSPORTS[4:], SIDKINDS, ['none', 'both'], [None]))
    prod_str = list(itertools.product(['GET', 'POST', 'OPTIONS'], ['4', '3'], TRANSPORTS, SIDKINDS, ['none', 'both', 'upgrade_only'], [None, 'x']))
    # refused requests first so that worlds are reused as long as possible
    jobs = []
    for impl in ('sync', 'async'):
        for cfg in CFGS + STR_CFGS:
            cs = sorted(prod_str if cfg in STR_CFGS else prod, key=lambda c: reference(*c, cfg)[0] != 'refuse')
            for part in parallel.split(cs, 3 if cfg in STR_CFGS else 12):
                part = sorted(part, key=lambda c: reference(*c, cfg)[0] != 'refuse')
                jobs.append((impl, cfg, part))
    jobs += [(impl, 'overdue', None) for impl in ('sync', 'async')]
    res = parallel.pmap_chunks(_work, [[j] for j in jobs], ctx.workers, ctx.seed, maxtasks=4)
    tot = {}
    nv = 0
    for vs, st, n in res:
        nv += n
        for v in vs:
            rep.add(report.Violation.from_json(v))
        for k, v in st.items():
            tot[k] = tot.get(k, 0) + v
    rep.coverage = {
        'evaluations': tot['requests'],
        'distinct_nontrivial': tot['requests'],
        'rule': 'product method(6) x EIO(6) x transport(4) x sid kind(7) x Upgrade/Connection(%d) x j(%d) x configured '
                'transports(3) x {Server, AsyncServer}; each request against a prepared world holding a bystander '
                'with queued packets and one session of every kind the configuration allows (kinds that cannot '
                'exist under a configuration are skipped); plus transport names that are proper substrings of the real ones (reduced product), and the transports option given as a bare string (polling / websocket; reduced product). Every request is a distinct cell.' % (len(hdrs), len(js)),
        'samples': [{'method': 'POST', 'sid': 'closed', 'EIO': '4', 'transport': 'polling'},
                    {'method': 'GET', 'sid': 'live_polling', 'transport': 'websocket', 'hdr': 'none'},
                    {'method': 'PUT', 'EIO': '3', 'transport': 'bogus'}],
        'exhaustive': True,
        'by_reference_verdict': {k: tot.get(k, 0) for k in ('refuse', 'admit', 'open', 'any')},
        'worlds_built': tot['worlds'], 'cells_skipped': tot['skipped'], 'violating_cases_total': nv,
    }
    rep.assumptions = [
        'on ASGI a request with both Upgrade and Connection headers arrives as a websocket scope (refusal = websocket.close before accept)',
        "OPTIONS naming a dead sid, 'j=' with empty value, a repeated upgrade of an upgraded session and bad-method-plus-other-defect are left open as in DESIGN S4",
        'a refused request allows reuse of the same prepared world for the next request only after the state digest was verified unchanged',
    ]
    return rep


def replay(ctx, payload):
    r = payload['replay']
    out = []
    st = {'worlds': 0, 'requests': 0, 'skipped': 0}
    if r['cfg'] == 'overdue':
        run_overdue(r['impl'], out, st)
    else:
        run_cases(r['impl'], r['cfg'], [tuple(r['case'])], out, st)
        print('reference:', reference(*r['case'], r['cfg']))
    for v in out:
        print('REPLAY VIOLATION:', v.text)
    print('replayed; violations=%d' % len(out))
    return 1 if out else 0
