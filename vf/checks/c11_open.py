"""C11 OPEN handshake reflects configuration and honours the connect handler.

Exhaustive enumeration of configuration cells (sub-products with the other
dimensions at default; the full product on a reduced grid at the thorough
tier), both servers, polling and WebSocket opens, against the OPEN-packet
reference. Where WebSocket is advertised the upgrade is actually performed
on that very session and must succeed.
"""
import itertools
import json

from vf import report
from vf.explore import core, parallel
from vf.models import jsonp
from vf.vworld import base, peer

INTERVALS = [25, 1, 1.5, 0.5, (25, 5), (1.5, 0.5)]
TIMEOUTS = [20, 1, 0.5, 2.5]
BUFS = [1, 100, 1000000]
TRANSPORTS = [None, ['polling'], ['websocket'], ['polling', 'websocket']]
COOKIES = ['none', 'name', 'dict_str', 'dict_true', 'dict_false', 'dict_callable', 'dict_callable_false', 'dict_noname']
OUTCOMES = ['None', 'True', 'False', '0', 'empty', 'text', 'dict', 'list', 'one', 'one_float', 'unserialisable', 'long_text', 'raise', 'raise_type', 'send_accept', 'send_reject']


_COOKIE_BOX = {'n': 0}     # set by the harness before each open; the callable cookie attribute reads it


def cookie_cfg(kind):
    if kind == 'none':
        return None
    if kind == 'name':
        return 'sess'
    if kind == 'dict_str':
        return {'name': 'c1', 'path': '/x', 'SameSite': 'Strict'}
    if kind == 'dict_true':
        return {'name': 'c2', 'Secure': True, 'HttpOnly': True}
    if kind == 'dict_false':
        return {'name': 'c3', 'Secure': False, 'path': '/'}
    if kind == 'dict_callable':
        return {'name': 'c4', 'Max-Age': lambda: str(60 + _COOKIE_BOX['n']), 'Secure': lambda: True}
    if kind == 'dict_callable_false':
        return {'name': 'c5', 'Secure': lambda: False, 'HttpOnly': lambda: True, 'path': '/'}
    if kind == 'dict_noname':
        return {'path': '/y'}
    raise AssertionError(kind)


def cookie_ref(kind, sid, n=0):
    """Accepted Set-Cookie values (list of alternatives) or None."""
    if kind == 'none':
        return None
    if kind == 'name':
        return ['sess=%s; path=/; SameSite=Lax' % sid]
    if kind == 'dict_str':
        return ['c1=%s; path=/x; SameSite=Strict' % sid]
    if kind == 'dict_true':
        return ['c2=%s; Secure; HttpOnly' % sid]
    if kind == 'dict_false':
        return ['c3=%s; path=/' % sid]          # a boolean attribute that is False is absent ('Secure=False' still means Secure to a browser)
    if kind == 'dict_callable':
        return ['c4=%s; Max-Age=%d; Secure' % (sid, 60 + n)]     # the callable is evaluated for every handshake
    if kind == 'dict_callable_false':
        return ['c5=%s; HttpOnly; path=/' % sid]
    if kind == 'dict_noname':
        return ['io=%s; path=/y' % sid]


class SendingConnect(base.Behaviour):
    """The connect handler sends to the new session before giving its verdict."""
    def __init__(self, accept):
        self.accept = accept

    def connect(self, sid, environ):
        return [('send', sid, 'greeting-1'), ('send', sid, 'greeting-2'), ('return', None if self.accept else False)]


def outcome_effects(o):
    if o in ('send_accept', 'send_reject'):
        return None
    return {'None': [], 'True': [('return', True)], 'False': [('return', False)],
            '0': [('return', 0)], 'empty': [('return', '')], 'text': [('return', 'no')],
            'dict': [('return', {'a': 1})], 'list': [('return', [1])],
            'one': [('return', 1)], 'one_float': [('return', 1.0)],       # JSON values that equal True without being True
            'long_text': [('return', 'n' * 150)],                        # longer than a WebSocket control frame could carry
            'unserialisable': [('return', {'a', 'set'})],              # a rejection value the 401 cannot carry (an application bug)
            'raise': [('raise', 'boom')],
            'raise_type': [('raise_type',)]}[o]      # an application bug of the TypeError kind inside the handler


def outcome_ref(o):
    """(accepted, body-json-or-None-for-default)."""
    if o in ('None', 'True', 'send_accept'):
        return True, None
    return False, {'text': 'no', 'dict': {'a': 1}, 'list': [1], 'one': 1, 'one_float': 1.0, 'long_text': 'n' * 150}.get(o)


def default_cell():
    return {'interval': 25, 'timeout': 20, 'buf': 1000000, 'allow': True, 'transports': None,
            'ws_avail': True, 'cookie': 'none', 'outcome': 'None', 'jsonp': False, 'cred': True, 'cors': 'default'}


def cells(thorough):
    seen = set()

    def emit(c):
        k = report.dumps(c, sort_keys=True)
        if k not in seen:
            seen.add(k)
            return True
        return False
    out = []
    for i, t, b in itertools.product(INTERVALS, TIMEOUTS, BUFS):
        c = dict(default_cell(), interval=i, timeout=t, buf=b)
        if emit(c):
            out.append(c)
    for a, tr, wa in itertools.product([True, False], TRANSPORTS, [True, False]):
        c = dict(default_cell(), allow=a, transports=tr, ws_avail=wa)
        if emit(c):
            out.append(c)
    for ck in COOKIES:
        for j in (False, True):
            c = dict(default_cell(), cookie=ck, jsonp=j)
            if emit(c):
                out.append(c)
    for o, j in itertools.product(OUTCOMES, [False, True]):
        c = dict(default_cell(), outcome=o, jsonp=j)
        if emit(c):
            out.append(c)
    # the same options given by position, in the documented order
    for npos in (2, 3, 4, 7):
        for c0 in (dict(default_cell(), interval=1.5, timeout=0.5, buf=100, allow=False, cookie='name'),
                   dict(default_cell(), interval=1, timeout=2, buf=6, allow=True, cookie='dict_str')):
            c = dict(c0, positional=npos)
            if emit(c):
                out.append(c)
    # options that have nothing to do with the handshake answer, next to the ones that do: CORS credentials off, an open /
    # disabled origin policy, compression off
    for ck, cred, cors in itertools.product(COOKIES, [True, False], ['default', 'star', 'off']):
        for o in ('None', 'dict'):
            c = dict(default_cell(), cookie=ck, cred=cred, cors=cors, outcome=o)
            if emit(c):
                out.append(c)
    if thorough:
        for i, t, a, tr, wa, ck, o, j in itertools.product(
                [1, 1.5, (1.5, 0.5)], [1, 0.5], [True, False], TRANSPORTS, [True, False],
                ['none', 'name', 'dict_true', 'dict_false'], OUTCOMES, [False, True]):
            c = dict(default_cell(), interval=i, timeout=t, allow=a, transports=tr, ws_avail=wa,
                     cookie=ck, outcome=o, jsonp=j, buf=100)
            if emit(c):
                out.append(c)
    return out


def _viol(impl, kind, trigger, text, cell, via):
    return report.Violation({'impl': impl, 'kind': kind, 'trigger': trigger},
                            '[%s %s-open] %s  cell=%s' % (impl, via, text, report.dumps(cell, sort_keys=True)),
                            {'impl': impl, 'via': via, 'cell': cell}, weight=(0, 0))


def run_cell(impl, via, cell, out):
    """One open request against a freshly configured server."""
    _COOKIE_BOX['n'] = 0
    kw = dict(ping_interval=tuple(cell['interval']) if isinstance(cell['interval'], (list, tuple)) else cell['interval'],
              ping_timeout=cell['timeout'], max_http_buffer_size=cell['buf'],
              allow_upgrades=cell['allow'], cookie=cookie_cfg(cell['cookie']), cors_credentials=cell.get('cred', True))
    if cell.get('cors', 'default') != 'default':
        kw['cors_allowed_origins'] = '*' if cell['cors'] == 'star' else []
    if cell.get('positional'):
        # the first n options after async_mode are given by position (ping_interval, ping_timeout, max_http_buffer_size,
        # allow_upgrades, http_compression, compression_threshold, cookie)
        order = ['ping_interval', 'ping_timeout', 'max_http_buffer_size', 'allow_upgrades', 'http_compression', 'compression_threshold', 'cookie']
        defaults = {'http_compression': True, 'compression_threshold': 1024}
        kw['_positional'] = tuple(kw.pop(k) if k in kw else defaults[k] for k in order[:cell['positional']])
    if cell['transports'] is not None:
        kw['transports'] = list(cell['transports'])
    allowed = cell['transports'] or ['polling', 'websocket']
    if via not in allowed:
        return 'skipped'
    if via == 'websocket' and not cell['ws_avail']:
        return 'skipped'       # opening over WebSocket without a driver is outside the alphabet (DESIGN S4)
    if cell['outcome'] in ('send_accept', 'send_reject'):
        beh = SendingConnect(cell['outcome'] == 'send_accept')
    else:
        beh = base.Scripted(connect=outcome_effects(cell['outcome']))
    try:
        w = peer.make_world(impl, server_kwargs=kw, behaviour=beh)
    except TypeError as e:
        if not cell.get('positional'):
            raise
        out.append(_viol(impl, 'open_packet_missing', 'positional=%d' % cell['positional'],
                         'the server could not be constructed with its first %d options given by position in the documented order: %s'
                         % (cell['positional'], e), cell, via))
        return 'bad'
    try:
        if not cell['ws_avail']:
            w.server._async = dict(w.server._async, websocket=None)
        accepted_ref, body_ref = outcome_ref(cell['outcome'])
        interval = cell['interval']
        want_pi = (interval[0] + interval[1]) * 1000 if isinstance(interval, (list, tuple)) else interval * 1000
        want_pt = cell['timeout'] * 1000
        want_up = ['websocket'] if (cell['allow'] and 'websocket' in allowed and cell['ws_avail']
                                    and via == 'polling') else []
        V = lambda kind, trig, text: out.append(_viol(impl, kind, trig, text, cell, via))   # noqa: E731
        seen_at_answer = []

        def observer(req, status):
            # runs inside the gateway callback that receives the answer (start_response / ASGI send)
            if str(status)[:3] == '401':
                seen_at_answer.append(sorted(w.table_sids()))
        w.on_response_start = [observer]
        if via == 'polling':
            r = w.http('GET', peer.BASEQ + ('&j=0' if cell['jsonp'] else ''))      # 0 is the first callback index a JSONP client uses
            w.run()
            if r.exc and cell['outcome'] == 'unserialisable':
                r.status, r.resp_headers, r.body, r.done = 401, [], b'"<the open failed on the value>"', True     # how it fails is not judged
            if r.exc and cell['outcome'] != 'unserialisable':
                V('exception_escaped', 'cookie=' + cell['cookie'] if cell['cookie'] != 'none' else 'open',
                  'open raised %s at %s' % (r.exc['type'], r.exc['site']))
                return 'exc'
            if not r.done:
                V('open_not_answered', 'open', 'open request still pending at quiescence')
                return 'pending'
            status, hdrs = r.status, r.resp_headers
            text = (r.body or b'').decode('utf-8', 'replace')
            if cell['jsonp'] and status == 200:
                try:
                    idx, text = jsonp.evaluate(text)
                except jsonp.BadScript as e:
                    V('jsonp_malformed', 'jsonp', 'open body %r: %s' % (text[:60], e))
                    return 'bad'
            first = text.split('\x1e')[0] if status == 200 else None
        else:
            s = w.ws(peer.WSQ)
            w.run()
            if s.exc and cell['outcome'] == 'unserialisable':
                s.exc = None
                s.rejected = True
            if s.exc:
                V('exception_escaped', 'open', 'ws open raised %s at %s' % (s.exc['type'], s.exc['site']))
                return 'exc'
            if s.accepted:
                status = 200
                first = s.frames[0][2] if s.frames else None
            else:
                first = None
                status = s.status if s.status is not None else 401 if s.rejected else None
                text = s.body if isinstance(s.body, str) else (s.body or b'').decode('utf-8', 'replace')
            hdrs = []
        connects = [e for e in w.events if e[0] == 'connect']
        if len(connects) != 1:
            V('connect_count', 'open', 'connect handler ran %d times' % len(connects))
            return 'bad'
        hsid = connects[0][1]
        if accepted_ref:
            if status != 200 or first is None or not isinstance(first, str) or not first.startswith('0'):
                V('open_packet_missing', 'open', 'status %r first packet %r' % (status, first))
                return 'bad'
            try:
                d = json.loads(first[1:])
            except ValueError:
                V('open_packet_missing', 'open', 'OPEN data not JSON: %r' % first)
                return 'bad'
            if d.get('sid') != hsid:
                V('sid_mismatch', 'open', 'OPEN sid %r, handler got %r' % (d.get('sid'), hsid))
            if cell['outcome'] == 'send_accept':
                if via == 'polling':
                    rest = text.split('\x1e')[1:]
                else:
                    w.run()
                    rest = [f[2] for f in s.frames[1:]]
                if rest[:2] != ['4greeting-1', '4greeting-2']:
                    V('packets_sent_by_connect_handler', 'outcome=send_accept', 'after OPEN the client got %r, want the two greetings in order' % (rest[:3],))
            if d.get('pingInterval') != want_pi:
                V('ping_interval_wrong', 'interval=%r' % (cell['interval'],),
                  'pingInterval %r, configured %r (+grace) = %r ms' % (d.get('pingInterval'), cell['interval'], want_pi))
            if d.get('pingTimeout') != want_pt:
                V('ping_timeout_wrong', 'timeout=%r' % cell['timeout'],
                  'pingTimeout %r, configured %r ms' % (d.get('pingTimeout'), want_pt))
            if d.get('maxPayload') != cell['buf']:
                V('max_payload_wrong', 'buf', 'maxPayload %r, configured %r' % (d.get('maxPayload'), cell['buf']))
            ups = d.get('upgrades')
            if ups != want_up:
                V('upgrades_wrong', 'transports=%r allow=%r ws_avail=%r' % (cell['transports'], cell['allow'], cell['ws_avail']),
                  'upgrades %r, reference %r' % (ups, want_up))
            if sorted(w.table_sids()) != [hsid]:
                V('session_count', 'open', 'session table %r after one accepted open' % w.table_sids())
            if via == 'polling':
                ck = [v for k, v in hdrs if k.lower() == 'set-cookie']
                ref = cookie_ref(cell['cookie'], hsid)
                if ref is None and ck:
                    V('cookie_unexpected', 'cookie', 'Set-Cookie %r although none configured' % ck)
                elif ref is not None and (len(ck) != 1 or ck[0] not in ref):
                    V('cookie_wrong', 'cookie=' + cell['cookie'], 'Set-Cookie %r, want one of %r' % (ck, ref))
            if ups == ['websocket'] and via == 'polling' and cell['buf'] >= 6:
                # dynamic: an advertised upgrade must actually be accepted
                s2 = peer.do_upgrade(w, hsid)
                if w.transport(hsid) != 'websocket' or '3probe' not in peer.ws_frames(s2):
                    V('advertised_upgrade_refused', 'transports=%r' % (cell['transports'],),
                      'websocket advertised but the handshake did not complete (accepted=%s frames=%r exc=%r)'
                      % (s2.accepted, peer.ws_frames(s2), s2.exc))
            elif via == 'websocket':
                if w.transport(hsid) != 'websocket':
                    V('ws_open_not_websocket', 'open', 'transport() is %r after a WebSocket open' % w.transport(hsid))
            if via == 'polling' and not cell['jsonp']:
                # serving an open must not change what the next open is told (configuration is not consumed)
                for attempt in (2, 3):
                    _COOKIE_BOX['n'] = attempt - 1
                    r2 = w.http('GET', peer.BASEQ)
                    w.run()
                    d2 = peer.open_data(r2)
                    if r2.exc or d2 is None:
                        V('repeat_open_failed', 'open#%d' % attempt, 'open #%d: exc=%r status=%r' % (attempt, r2.exc, r2.status))
                        break
                    sid2 = d2.get('sid')
                    same = {k: d2.get(k) for k in ('pingInterval', 'pingTimeout', 'maxPayload', 'upgrades')}
                    want = {'pingInterval': want_pi, 'pingTimeout': want_pt, 'maxPayload': cell['buf'], 'upgrades': want_up}
                    if same != want:
                        V('repeat_open_differs', 'open#%d' % attempt, 'open #%d announced %r, want %r' % (attempt, same, want))
                    ck2 = [v for k, v in (r2.resp_headers or []) if k.lower() == 'set-cookie']
                    ref2 = cookie_ref(cell['cookie'], sid2, attempt - 1)
                    if (ref2 is None and ck2) or (ref2 is not None and (len(ck2) != 1 or ck2[0] not in ref2)):
                        V('cookie_wrong', 'cookie=%s open#%d' % (cell['cookie'], attempt), 'open #%d: Set-Cookie %r, want one of %r' % (attempt, ck2, ref2))
                    if sid2 == hsid:
                        V('sid_reused', 'open#%d' % attempt, 'open #%d reused sid %r' % (attempt, sid2))
            # an open over the OTHER transport on the same server is told what holds for its own transport
            other = 'websocket' if via == 'polling' else 'polling'
            if other in allowed and (other == 'polling' or cell['ws_avail']) and not cell['jsonp'] and cell['buf'] >= 6:
                want_other = ['websocket'] if (other == 'polling' and cell['allow'] and 'websocket' in allowed and cell['ws_avail']) else []
                if other == 'polling':
                    ro = w.http('GET', peer.BASEQ)
                    w.run()
                    do = peer.open_data(ro)
                else:
                    so = w.ws(peer.WSQ)
                    w.run()
                    fo = so.frames[0][2] if so.accepted and so.frames else None
                    try:
                        do = json.loads(fo[1:]) if isinstance(fo, str) and fo.startswith('0') else None
                    except ValueError:
                        do = None
                if do is None:
                    V('repeat_open_failed', 'open_other_transport', 'an open over %s after one over %s was not answered with an OPEN packet' % (other, via))
                else:
                    got_o = {k: do.get(k) for k in ('pingInterval', 'pingTimeout', 'maxPayload', 'upgrades')}
                    want_o = {'pingInterval': want_pi, 'pingTimeout': want_pt, 'maxPayload': cell['buf'], 'upgrades': want_other}
                    if got_o != want_o:
                        V('repeat_open_differs', 'open_other_transport', 'after an open over %s, an open over %s announced %r, want %r'
                          % (via, other, got_o, want_o))
            return 'accepted'
        # rejection
        if seen_at_answer and any(hsid in t for t in seen_at_answer):
            V('rejected_sid_addressable', 'outcome=' + cell['outcome'], 'when the 401 was handed to the gateway the rejected id was still in the '
              'session table (%r)' % (seen_at_answer[0],))
        if status != 401:
            V('reject_status', 'outcome=' + cell['outcome'], 'rejected connect answered %r' % status)
        elif via == 'polling' or impl == 'sync' or (isinstance(text, str) and text):
            # (on an ASGI websocket scope the refusal travels as the reason of the close event)
            try:
                got = json.loads(text)
            except ValueError:
                got = ('<not json>', text)
            want_body = body_ref if body_ref is not None else 'Unauthorized'
            if cell['outcome'] == 'unserialisable':
                pass
            elif got != want_body:
                V('reject_body', 'outcome=' + cell['outcome'], '401 body %r, want %r' % (got, want_body))
        if hsid in w.table_sids():
            V('rejected_sid_addressable', 'outcome=' + cell['outcome'], 'rejected sid still in the session table')
        n_events = len(w.events)
        g = peer.poll(w, hsid)
        p = peer.post(w, hsid, '4late')
        c = w.call('send', hsid, 'x')
        w.run()
        w.run_until(w.now + 60)
        for name, h in (('GET', g), ('POST', p)):
            if h.exc:
                V('exception_escaped', 'rejected_sid', '%s with rejected sid raised %s' % (name, h.exc['type']))
            elif h.status != 400:
                V('rejected_sid_addressable', 'outcome=' + cell['outcome'], '%s with rejected sid answered %r' % (name, h.status))
        if not c.done or c.exc:
            V('send_rejected_sid', 'rejected_sid', 'send() to rejected sid: done=%s exc=%r' % (c.done, c.exc))
        if len(w.events) != n_events:
            V('event_for_rejected_sid', 'rejected_sid', 'events after rejection: %r' % [e[:3] for e in w.events[n_events:]])
        return 'rejected'
    finally:
        w.teardown()



# ------------------------------------------------------------------ histories of rejections on one server

BIG = {'error': 'not allowed', 'detail': 'x' * 1400}
REJ_VALUES = {'big': BIG, 'text': 'no', 'false': False, 'dict': {'a': 1}}


class _ByHeader(base.Behaviour):
    """Connect handler that rejects with the value the request names (header X-Verdict)."""
    def connect(self, sid, environ):
        return [('return', REJ_VALUES[environ.get('HTTP_X_VERDICT', 'false')])]


def reject_histories(thorough):
    letters = [(v, ae) for v in ('big', 'text', 'false') for ae in (None, 'gzip', 'deflate')]
    out = []
    for n in (1, 2, 3) if thorough else (1, 2):
        out += [list(h) for h in itertools.product(letters, repeat=n)]
    if not thorough:
        out += [[('big', 'gzip'), ('big', 'gzip'), ('false', None)], [('text', None), ('big', 'deflate'), ('dict', 'gzip')]]
    return out


def _decode_answer(r):
    import gzip
    import zlib
    ce = [v for k, v in (r.resp_headers or []) if k.lower() == 'content-encoding']
    body = r.body or b''
    if len(ce) > 1:
        return ce, ('<undecodable>', 'several Content-Encoding headers')
    try:
        if ce == ['gzip']:
            body = gzip.decompress(body)
        elif ce == ['deflate']:
            body = zlib.decompress(body)
        elif ce:
            return ce, ('<undecodable>', 'unknown coding')
        return ce, json.loads(body.decode('utf-8'))
    except Exception as e:      # noqa: BLE001 - whatever an HTTP client would fail with
        return ce, ('<undecodable>', '%s: %s' % (type(e).__name__, e))


def run_reject_history(impl, hist, out):
    """A sequence of rejected opens on one server: each 401 carries its own value, readable by the client that asked."""
    w = peer.make_world(impl, behaviour=_ByHeader())
    try:
        for k, (verdict, ae) in enumerate(hist):
            h = {'X-Verdict': verdict}
            if ae:
                h['Accept-Encoding'] = ae
            r = w.http('GET', peer.BASEQ, headers=h)
            w.run()
            trig = 'history/%s' % ('first' if k == 0 else 'later')
            cell = {'history': hist, 'step': k}
            if r.exc or not r.done:
                out.append(_viol(impl, 'exception_escaped' if r.exc else 'open_not_answered', trig,
                                 'rejected open #%d: exc=%r done=%s' % (k + 1, r.exc, r.done), cell, 'polling'))
                return 'bad'
            ce, got = _decode_answer(r)
            want = REJ_VALUES[verdict] or 'Unauthorized'
            if r.status != 401:
                out.append(_viol(impl, 'reject_status', trig, 'rejected open #%d answered %r' % (k + 1, r.status), cell, 'polling'))
            elif ce and (ae is None or ce[0] != ae):
                out.append(_viol(impl, 'reject_body', trig, '401 #%d carries Content-Encoding %r, the request accepted %r'
                                 % (k + 1, ce, ae), cell, 'polling'))
            elif got != want:
                out.append(_viol(impl, 'reject_body', trig, '401 #%d (Content-Encoding %r) decodes to %r, want the handler value %r'
                                 % (k + 1, ce, got if not isinstance(got, dict) else sorted(got), want if not isinstance(want, dict) else sorted(want)),
                                 cell, 'polling'))
            if w.table_sids():
                out.append(_viol(impl, 'rejected_sid_addressable', trig, 'session table %r after rejection #%d' % (w.table_sids(), k + 1), cell, 'polling'))
        return 'reject_history'
    finally:
        w.teardown()


def run_reopen(impl, kind, out):
    """An earlier session of this server has come and gone - its disconnect event handled by a legacy one-argument handler, by
    a handler that raised, or by an ordinary one - and the next open is answered like the first."""
    extra = {'legacy_disconnect': True} if kind == 'legacy' else {}
    beh = base.Scripted(disconnect=[('raise_type',)]) if kind == 'raise_type' else base.Scripted(disconnect=[('raise', 'x')]) if kind == 'legacy_raise' else None
    if kind == 'legacy_raise':
        extra = {'legacy_disconnect': True}
    w = peer.make_world(impl, behaviour=beh, **extra)
    cell = {'reopen_after': kind}
    try:
        for how in ('post_close', 'api'):
            s1 = peer.sid_of(peer.open_polling(w))
            if s1 is None:
                out.append(_viol(impl, 'repeat_open_failed', 'reopen=' + kind, 'an open after an earlier session had ended (%s) was not answered '
                                 'with an OPEN packet' % how, cell, 'polling'))
                return 'bad'
            g = peer.poll(w, s1)
            if how == 'post_close':
                peer.post(w, s1, '1')
            else:
                w.call('disconnect', s1)
                w.run()
        r = peer.open_polling(w)
        d = peer.open_data(r)
        if d is None or r.status != 200:
            out.append(_viol(impl, 'repeat_open_failed', 'reopen=' + kind, 'the open after two ended sessions was answered %r' % (r.status,), cell, 'polling'))
        return 'reopen'
    finally:
        w.teardown()


# ------------------------------------------------------------------ overlapping opens (schedule search)

VERDICTS = {'accept': [], 'false': [('return', False)], 'text': [('return', 'no')], 'raise': [('raise', 'boom')]}


class _PerClient(base.Behaviour):
    """Connect handler whose duration and verdict depend on who is connecting (query parameter `who`)."""
    def __init__(self, verdicts, slow):
        self.verdicts = verdicts
        self.slow = slow
        self.sids = {}

    def connect(self, sid, environ):
        q = environ.get('QUERY_STRING', '')
        who = q.split('who=')[1][0] if 'who=' in q else '?'
        self.sids[who] = sid
        return ([('sleep', 0.125)] if who in self.slow else []) + list(VERDICTS[self.verdicts[who]])


class Overlap(core.Scenario):
    """Two or three clients open sessions at the same time, with connect handlers that take time and give
    different verdicts: each open is honoured on its own - the accepted ids (and only they) stay addressable."""
    horizon = 0.5

    def build(self):
        p = self.params
        self.beh = _PerClient(p['verdicts'], p['slow'])
        w = self.world = peer.make_world(p['impl'], server_kwargs=dict(ping_interval=50, ping_timeout=50, async_handlers=False),
                                         behaviour=self.beh)
        self.opens = {}

        def do_open(who):
            def fire(sc):
                if p['via'] == 'polling':
                    sc.opens[who] = sc.world.http('GET', peer.BASEQ + '&who=' + who)
                else:
                    sc.opens[who] = sc.world.ws(peer.WSQ + '&who=' + who)
            return core.Action('open-' + who, fire)
        self.scripts = [[do_open(who)] for who in sorted(p['verdicts'])]

    def finish(self):
        w = self.world
        p = self.params
        w.run_until(self.horizon)
        trig = 'overlapping_opens'
        acc, rej = {}, {}
        self._obs = {}
        for who, v in sorted(p['verdicts'].items()):
            r = self.opens.get(who)
            sid = self.beh.sids.get(who)
            if r is None or sid is None:
                self.flag('open_unanswered', 'open of client %s: no connect event / no request' % who, trigger=trig)
                continue
            if p['via'] == 'polling':
                told = peer.sid_of(r) if r.done and r.status == 200 else None
                self._obs[who] = (r.status, told == sid)
                if v == 'accept':
                    if told != sid:
                        self.flag('open_packet_wrong', 'client %s (accepted, handler saw sid ..%s) was answered status %r sid %r'
                                  % (who, sid[-4:], r.status, told), trigger=trig)
                    acc[who] = sid
                else:
                    if not r.done or r.status != 401:
                        self.flag('rejected_open_not_401', 'client %s (verdict %s) was answered %r' % (who, v, r.status), trigger=trig)
                    rej[who] = sid
            else:
                self._obs[who] = (r.accepted, r.server_closed)
                (acc if v == 'accept' else rej)[who] = sid
        live = set(w.live_sids())
        self._obs['live'] = sorted(k for k, s_ in list(acc.items()) + list(rej.items()) if s_ in live)
        for who, sid in sorted(rej.items()):
            if sid in w.server.sockets:
                self.flag('rejected_session_kept', 'the id of rejected client %s is still in the session table' % who, trigger=trig)
            g = w.http('GET', peer.BASEQ + '&sid=' + sid)
            w.run()
            if not g.done or g.status != 400:
                self.flag('rejected_sid_addressable', 'GET with the id of rejected client %s answered %r' % (who, g.status), trigger=trig)
                w.run_until(w.now + 0.01)
        for who, sid in sorted(acc.items()):
            if sid not in live:
                self.flag('accepted_session_lost', 'accepted client %s: its session is not in the table (live: %d sessions)'
                          % (who, len(live)), trigger=trig)
                continue
            if p['via'] == 'polling':
                w.call('send', sid, 'for-' + who)
                w.run()
                g = peer.poll(w, sid)
                w.run_until(w.now + 0.125)
                got = [d for ty, d in peer.decode_body(g.text())] if g.done and g.status == 200 else None
                if not got or 'for-' + who not in got:
                    self.flag('accepted_session_unusable', 'accepted client %s polled %r after send()' % (who, got), trigger=trig)

    def observation(self):
        return self._obs


def overlap_params():
    ps = []
    for impl in ('sync', 'async'):
        for via in ('polling', 'websocket'):
            for va, vb in itertools.product(sorted(VERDICTS), repeat=2):
                if va == vb == 'accept':
                    continue
                for slow in ('A', 'B', 'AB'):
                    ps.append({'impl': impl, 'via': via, 'verdicts': {'A': va, 'B': vb}, 'slow': slow})
            for vs in (('false', 'accept', 'accept'), ('accept', 'false', 'raise'), ('text', 'false', 'accept')):
                ps.append({'impl': impl, 'via': via, 'verdicts': dict(zip('ABC', vs)), 'slow': 'AC'})
    return ps

def _work(chunk):
    out = []
    kinds = {}
    n = 0
    for impl, via, cell in chunk:
        try:
            if via == 'reject_history':
                k = run_reject_history(impl, cell, out)
            elif via == 'reopen':
                k = run_reopen(impl, cell, out)
            else:
                k = run_cell(impl, via, cell, out)
        except report.Livelock as e:
            out.append(report.livelock_violation(impl, e, {'impl': impl, 'via': via, 'cell': cell}))
            k = 'livelock'
        kinds[k] = kinds.get(k, 0) + 1
        n += 1
    return [v.to_json() for v in out], kinds, n


def run(ctx):
    rep = report.Report('C11', 'exploration')
    cs = cells(not ctx.quick)
    jobs = [(impl, via, c) for c in cs for impl in ('sync', 'async') for via in ('polling', 'websocket')
            if not (via == 'websocket' and c['jsonp'])]
    hs = reject_histories(not ctx.quick)
    jobs += [(impl, 'reject_history', h) for h in hs for impl in ('sync', 'async')]
    jobs += [(impl, 'reopen', k) for k in ('plain', 'legacy', 'legacy_raise', 'raise_type') for impl in ('sync', 'async')]
    res = parallel.pmap_chunks(_work, parallel.split(jobs, ctx.workers * 4), ctx.workers, ctx.seed, maxtasks=8)
    kinds = {}
    n = 0
    for vs, ks, k in res:
        n += k
        for v in vs:
            rep.add(report.Violation.from_json(v))
        for a, b in ks.items():
            kinds[a] = kinds.get(a, 0) + b
    ops = overlap_params()
    st, viols, _, gate = core.run_search(Overlap, ops, 1 if ctx.quick else 2, ctx.workers, ctx.seed)
    for v in viols:
        pr = v['params']
        rep.add(report.Violation(
            dict({'impl': pr['impl'], 'kind': v['kind']}, **v['sig']),
            '[%s via=%s verdicts=%r slow=%s] %s (choices=%s)' % (pr['impl'], pr['via'], pr['verdicts'], pr['slow'], v['text'],
                                                                  ''.join(map(str, v['choices']))),
            {'harness': 'overlap', 'params': pr, 'choices': v['choices']}, weight=(v['dev'] + 1, len(v['choices']))))
    n += st.executions
    rep.coverage = {
        'evaluations': n,
        'distinct_nontrivial': n - kinds.get('skipped', 0),
        'rule': 'configuration cells: timing %dx%dx%d, upgrades 2x4x2, cookie 7x2, connect outcome 9x2, cookie 7 x cors_credentials 2 x origin policy 3 x outcome 2 as '
                'sub-products with the other dimensions at default%s; each on Server and AsyncServer, polling and '
                'WebSocket opens; plus %d histories of 1..%d rejected opens on one server (value big enough to be compressed / text / False x Accept-Encoding none / gzip / deflate): every 401 decodes, by its own headers, to the value its handler returned; plus overlapping opens (two or three clients opening at once, connect handlers that take 1/8 s for some of them, verdicts {accept, False, text, raise} per client: every interleaving and a bounded number of deviations - each open is honoured on its own, rejected ids are unaddressable and accepted ones usable). Non-trivial = cells whose opening transport is allowed (others are skipped).'
                % (len(INTERVALS), len(TIMEOUTS), len(BUFS),
                   '' if ctx.quick else '; plus the full product on a reduced grid (3x2 timing, 2x4x2 upgrades, 4 cookies, 9 outcomes, jsonp)',
                   len(hs), 2 if ctx.quick else 3),
        'samples': [cs[0], cs[len(cs) // 2], cs[-1]],
        'exhaustive': True,
        'cells': len(cs), 'outcomes': kinds,
        'overlapping_opens': {'scenarios': len(ops), 'executions': st.executions, 'distinct_outcomes': len(st.outcomes),
                              'deviation_bound': 1 if ctx.quick else 2, 'caps_hit': st.caps, 'determinism_gate': gate},
    }
    rep.assumptions = [
        'a boolean cookie attribute that is False (literally or as the result of a callable) is absent from the cookie',
        'the Set-Cookie clause is judged on polling opens only (WebSocket accepts carry no engineio headers)',
        'opening over WebSocket when no WebSocket driver is available is outside the alphabet',
    ]
    return rep


def replay(ctx, payload):
    r = payload['replay']
    if r.get('harness') == 'overlap':
        ex = core.execute(Overlap, r['params'], r['choices'], want_labels=True)
        for lab in ex.labels:
            print('  ', lab)
        for v in ex.violations:
            print('REPLAY VIOLATION:', v)
        return 1 if ex.violations else 0
    out = []
    if 'reopen_after' in r['cell']:
        k = run_reopen(r['impl'], r['cell']['reopen_after'], out)
    elif 'history' in r['cell']:
        k = run_reject_history(r['impl'], [tuple(x) for x in r['cell']['history']], out)
    else:
        k = run_cell(r['impl'], r['via'], r['cell'], out)
    print('outcome:', k)
    for v in out:
        print('REPLAY VIOLATION:', v.text)
    return 1 if out else 0
