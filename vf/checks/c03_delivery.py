"""C03 Server-to-client messages: exactly once, in order, one transport, across
upgrade.

Stateless deviation-bounded schedule search on the real servers: application
send() calls, client polls (overlapping and late), the steps of the upgrade
handshake (succeeding or failing) and closes are parallel scripts; every
interleaving of the scripts plus up to D deviations (early injection of an
environment action, thread preemption at a synchronisation point) is executed
and a delivery ledger is evaluated after a drain epilogue.
"""
from vf import report
from vf.explore import core
from vf.models import codec
from vf.vworld import peer

PAYLOADS = ['m0', {'t': 'm1'}, b'm2', 'm3'] + ['m%d' % i for i in range(4, 48)]


def tag_of(data):
    if isinstance(data, dict):
        return data.get('t')
    if isinstance(data, (bytes, bytearray)):
        return bytes(data).decode('latin-1')
    return data


VARIANTS = ['upgrade_ok', 'upgrade_fail_frame', 'upgrade_fail_close', 'polling_only', 'ws_only',
            'two_sessions', 'close_during', 'upgrade_no_pending_poll', 'backlog_polling', 'backlog_ws',
            'backlog_upgrade', 'overlapping_opens', 'upgrade_fail_accept', 'backlog_ping', 'ws_send_fault', 'upgraded_send_fault', 'backlog_closing', 'two_readers', 'ws_backpressure', 'upgraded_backpressure']


class _SlowConnect:
    """Application whose connect handler takes 1/8 s of virtual time."""
    def connect(self, sid, environ):
        return [('sleep', 0.125)]

    def message(self, sid, data):
        return []

    def disconnect(self, sid, reason):
        return []


class Delivery(core.Scenario):
    horizon = 0.0

    def build_overlapping(self):
        """Two clients open sessions at the same time (the second request arrives while the first connect handler
        is still running); afterwards each client polls with the sid it was told."""
        p = self.params
        w = self.world = peer.make_world(p['impl'], server_kwargs=dict(ping_interval=50, ping_timeout=50, async_handlers=False),
                                         behaviour=_SlowConnect())
        self.horizon = 0.5
        self.opens = []
        self.sends, self.polls, self.ws = [], {}, {}
        self.fail_step = None
        self.closed_by_client = {}
        self.A = self.B = None

        def do_open(sc):
            sc.opens.append(peer.open_polling(sc.world, run=False))
        self.scripts = [[core.Action('open-A', do_open)], [core.Action('open-B', do_open)]]

    def finish_overlapping(self):
        w = self.world
        told = [peer.sid_of(r) for r in self.opens]
        real = [e[1] for e in w.events if e[0] == 'connect']
        self._obs = {'told': told, 'real': real}
        if None in told or len(told) != 2:
            self.flag('open_failed', 'opens answered %r' % [(r.done, r.status) for r in self.opens], trigger='overlapping_opens')
            return
        if told[0] == told[1] or sorted(told) != sorted(real):
            self.flag('cross_delivery', 'two clients opening at the same time were told sids %r; the application saw %r' % (told, real),
                      trigger='overlapping_opens')
        for s_ in real:
            w.call('send', s_, 'for-' + s_[-4:])
        w.run()
        for i, t in enumerate(told):
            g = peer.poll(w, t)
            w.run_until(w.now + 0.125)
            got = [d for ty, d in peer.decode_body(g.text())] if g.done and g.status == 200 else None
            want = ['for-' + t[-4:]]
            got_msgs = [d for d in (got or []) if isinstance(d, str) and d.startswith('for-')]
            self._obs['client%d' % i] = got_msgs
            if got_msgs != want:
                self.flag('cross_delivery' if got_msgs else 'message_lost',
                          'client %d (told sid ..%s) read %r, want %r' % (i, t[-4:], got_msgs, want), trigger='overlapping_opens')

    def build_backlog_ping(self):
        """A backlog that contains a heartbeat PING between application messages: a messages are queued, the first
        PING falls due (nobody is polling), b more messages are queued, then the client reads until nothing is left."""
        p = self.params
        a, b = p['k'] // 100, p['k'] % 100
        w = self.world = peer.make_world(p['impl'], server_kwargs=dict(ping_interval=1, ping_timeout=50, async_handlers=False))
        self.horizon = 1.5
        self.sends, self.polls, self.ws = [], {}, {}
        self.fail_step = None
        self.closed_by_client = {}
        self.B = None
        A = self.A = peer.sid_of(peer.open_polling(w))
        self.polls[A] = []

        def burst(lo, hi, name, nb):
            def fire(sc):
                c = sc.world.call_seq('send', [(A, PAYLOADS[i]) for i in range(lo, hi)])
                for i in range(lo, hi):
                    sc.sends.append((tag_of(PAYLOADS[i]), A, c, sc.world.nstep))
            return core.Action(name, fire, None, nb)

        def poll(sc):
            sc.polls[A].append(peer.poll(sc.world, A, run=False))
        self.scripts = [[burst(0, a, 'burst-before-ping', None), burst(a, a + b, 'burst-after-ping', 1.0625),
                         core.Action('poll', poll, None, 1.125)]]

    def build_backlog_closing(self):
        """A backlog larger than one payload while the session is in the middle of its own close (the disconnect handler
        is asleep): the polls that arrive in that window are bounded like any other."""
        p = self.params

        class Sleepy(_SlowConnect):
            def connect(self, sid, environ):
                return []

            def disconnect(self, sid, reason):
                return [('sleep', 0.25)]
        w = self.world = peer.make_world(p['impl'], server_kwargs=dict(ping_interval=50, ping_timeout=50, async_handlers=False),
                                         behaviour=Sleepy())
        self.horizon = 0.5
        self.sends, self.polls, self.ws = [], {}, {}
        self.fail_step = None
        self.B = None
        A = self.A = peer.sid_of(peer.open_polling(w))
        self.polls[A] = []
        self.closed_by_client = {A: 0}       # the application ends the session: completeness is not owed, boundedness is
        k = p['k']

        def burst(sc):
            c = sc.world.call_seq('send', [(A, PAYLOADS[i]) for i in range(k)])
            for i in range(k):
                sc.sends.append((tag_of(PAYLOADS[i]), A, c, sc.world.nstep))

        def disc(sc):
            sc.world.call('disconnect', A)

        def poll(sc):
            sc.polls[A].append(peer.poll(sc.world, A, run=False))
        self.scripts = [[core.Action('burst%d' % k, burst), core.Action('disconnect', disc), core.Action('poll', poll),
                         core.Action('poll2', poll, lambda sc: sc.polls[A] and sc.polls[A][-1].done)]]

    def finish_backlog_ping(self):
        w = self.world
        self.drain(self.A)
        kinds = []
        for r in self.polls[self.A]:
            if r.done and r.status == 200:
                pk = peer.decode_body(r.text())
                kinds.append([t for t, d in pk])
                if len(pk) > 16:
                    self.flag('batch_over_receiver_limit', 'a poll response carries %d packets; receivers refuse bodies of more than 16 (C02), '
                              'so everything in it is lost' % len(pk), trigger='backlog_ping')
        if not any(2 in k for k in kinds):
            self.flag('scenario_vacuous', 'no PING among the polled packets: %r' % kinds, trigger='backlog_ping')

    def build(self):
        p = self.params
        if p['variant'] == 'overlapping_opens':
            return self.build_overlapping()
        if p['variant'] == 'backlog_ping':
            return self.build_backlog_ping()
        if p['variant'] == 'backlog_closing':
            return self.build_backlog_closing()
        impl, variant, k = p['impl'], p['variant'], p['k']
        w = self.world = peer.make_world(impl, server_kwargs=dict(ping_interval=50, ping_timeout=50, async_handlers=False))
        self.sends = []      # (tag, sid, call)
        self.polls = {}      # sid -> [req]
        self.ws = {}         # sid -> ws handle
        self.fail_step = None
        self.closed_by_client = {}
        A = self.A = None
        if variant in ('ws_only', 'backlog_ws', 'ws_send_fault', 'ws_backpressure'):
            h = peer.ws_open(w)
            A = [e[1] for e in w.events if e[0] == 'connect'][-1]
            self.ws[A] = h
        else:
            A = peer.sid_of(peer.open_polling(w))
        self.A = A
        self.B = None
        self.polls[A] = []

        def send(sid, i, prefix='m'):
            data = PAYLOADS[i] if prefix == 'm' else 'n%d' % i

            def fire(sc):
                c = sc.world.call('send', sid, data)
                sc.sends.append((tag_of(data), sid, c, sc.world.nstep))
            return core.Action('send:%s' % tag_of(data), fire)

        def poll(sid, name='poll'):
            def fire(sc):
                sc.polls[sid].append(peer.poll(sc.world, sid, run=False))
            return core.Action(name, fire)

        def ws_connect(sid):
            def fire(sc):
                sc.ws[sid] = peer.ws_upgrade(sc.world, sid, run=False)
            return core.Action('ws_connect', fire)

        def ws_connect_dropped(sid):
            # the upgrade request arrives but the peer is gone before the WebSocket handshake is answered:
            # the driver fails before the Engine.IO handshake handler ever runs
            def fire(sc):
                sc.fail_step = sc.world.nstep
                sc.ws_failed = sc.world.ws(peer.WSQ + '&sid=' + sid, fail_accept=True)
            return core.Action('ws_connect_dropped', fire)

        def frame(sid, data, name, need_pong=False, marks_failure=False):
            def en(sc):
                s = sc.ws.get(sid)
                if s is None or not s.accepted:
                    return False
                if need_pong and '3probe' not in peer.ws_frames(s):
                    return False
                return True

            def fire(sc):
                if marks_failure:
                    sc.fail_step = sc.world.nstep
                if data == 'CLOSE':
                    sc.world.ws_close(sc.ws[sid])
                else:
                    sc.world.ws_send(sc.ws[sid], data)
            return core.Action(name, fire, en)

        def post_close(sid):
            def fire(sc):
                sc.closed_by_client[sid] = sc.world.nstep
                peer.post(sc.world, sid, '1', run=False)
            return core.Action('post_close', fire)

        app = [send(A, i) for i in range(k)]
        if variant.startswith('backlog'):
            # k messages are queued back to back by one application task before the client reads
            def burst(sc):
                for i in range(k):
                    sc.sends.append((tag_of(PAYLOADS[i]), A, None, sc.world.nstep))
                c = sc.world.call_seq('send', [(A, PAYLOADS[i]) for i in range(k)])
                sc.sends[:] = [(t, s_, c, st) for (t, s_, _, st) in sc.sends]
            app = [core.Action('burst%d' % k, burst)]
        if variant == 'backlog_polling':
            client = [poll(A, 'poll-after')]
        elif variant == 'backlog_ws':
            client = []
        elif variant == 'backlog_upgrade':
            client = [ws_connect(A), frame(A, '2probe', 'probe'), frame(A, '5', 'upgrade', need_pong=True)]
        elif variant == 'upgrade_ok':
            client = [poll(A), ws_connect(A), frame(A, '2probe', 'probe'), poll(A, 'late_poll'),
                      frame(A, '5', 'upgrade', need_pong=True)]
        elif variant == 'upgrade_no_pending_poll':
            client = [ws_connect(A), frame(A, '2probe', 'probe'), frame(A, '5', 'upgrade', need_pong=True),
                      poll(A, 'late_poll')]
        elif variant == 'upgrade_fail_frame':
            client = [poll(A), ws_connect(A), frame(A, '2probe', 'probe'), poll(A, 'late_poll'),
                      frame(A, '4x', 'bad_frame', need_pong=True, marks_failure=True)]
        elif variant == 'upgrade_fail_close':
            client = [poll(A), ws_connect(A), frame(A, '2probe', 'probe'),
                      frame(A, 'CLOSE', 'ws_close', need_pong=True, marks_failure=True)]
        elif variant == 'upgrade_fail_accept':
            client = [poll(A), ws_connect_dropped(A), poll(A, 'late_poll')]
        elif variant in ('ws_send_fault', 'upgraded_send_fault'):
            # k messages are queued by one task and flushed as a batch; the write of the second one fails once (connection
            # reset by the peer); a further message is sent afterwards. Either the session ends there, or nothing is lost.
            if variant == 'upgraded_send_fault':
                self.ws[A] = peer.do_upgrade(w, A)
            hws = self.ws[A]
            hws.fail_send_at = getattr(hws, 'nsend', 0) + 1

            def burst_f(sc):
                for i in range(k):
                    sc.sends.append((tag_of(PAYLOADS[i]), A, None, sc.world.nstep))
                c = sc.world.call_seq('send', [(A, PAYLOADS[i]) for i in range(k)])
                sc.sends[:] = [(t, s_, c, st) for (t, s_, _, st) in sc.sends]
            app = [core.Action('burst%d' % k, burst_f), send(A, k + 1)]
            client = []
        elif variant in ('ws_backpressure', 'upgraded_backpressure'):
            # the peer stops reading: a batch of k messages is being flushed (the first write is parked inside the socket) when
            # one more message is sent; then the peer reads again. Everything arrives, in sending order.
            if variant == 'upgraded_backpressure':
                # the burst is queued while the upgrade handshake is between probe and UPGRADE; the writer takes it as one batch
                self.ws[A] = peer.ws_upgrade(w, A)
                w.ws_send(self.ws[A], '2probe')
                w.run()
            hws = self.ws[A]
            hws.stall_send = 1          # the next write parks, later ones find room in the socket buffer

            def burst_b(sc):
                for i in range(k):
                    sc.sends.append((tag_of(PAYLOADS[i]), A, None, sc.world.nstep))
                c = sc.world.call_seq('send', [(A, PAYLOADS[i]) for i in range(k)])
                sc.sends[:] = [(t, s_, c, st) for (t, s_, _, st) in sc.sends]
            app = [core.Action('burst%d' % k, burst_b)]
            if variant == 'upgraded_backpressure':
                app.append(core.Action('upgrade', lambda sc: sc.world.ws_send(hws, '5'), lambda sc: len(sc.sends) >= k))
            app += [core.Action(send(A, k).name, send(A, k).fire, lambda sc: getattr(hws, 'stalled', 0) > 0),
                    core.Action('peer_reads_again', lambda sc: sc.world.ws_release_send(hws),
                                lambda sc: getattr(hws, 'stalled', 0) > 0 and len(sc.sends) > k)]
            client = []
        elif variant == 'polling_only':
            client = [poll(A), poll(A, 'poll2'), poll(A, 'poll3')]
        elif variant == 'two_readers':
            # two long-polls of one session are waiting when a burst of k messages is queued by one application task
            self.polls[A] += [peer.poll(w, A, run=True), peer.poll(w, A, run=True)]

            def burst2(sc):
                for i in range(k):
                    sc.sends.append((tag_of(PAYLOADS[i]), A, None, sc.world.nstep))
                c = sc.world.call_seq('send', [(A, PAYLOADS[i]) for i in range(k)])
                sc.sends[:] = [(t, s_, c, st) for (t, s_, _, st) in sc.sends]
            app = [core.Action('burst%d' % k, burst2)]
            client = []
        elif variant == 'ws_only':
            client = []
        elif variant == 'close_during':
            client = [poll(A), post_close(A)]
        elif variant == 'two_sessions':
            B = self.B = peer.sid_of(peer.open_polling(w))
            self.polls[B] = []
            client = [poll(A), poll(B, 'pollB')]
            app = [send(A, 0), send(B, 0, 'n'), send(A, 1)][:max(2, k)]
        else:
            raise AssertionError(variant)
        self.scripts = [client, app]

    # ------------------------------------------------------------ epilogue
    def drain(self, sid):
        w = self.world
        w.run()
        for _ in range(12):
            if sid not in w.live_sids():
                return
            if w.transport(sid) == 'websocket':
                w.run()
                return
            pend = [r for r in self.polls[sid] if not r.done]
            if pend:
                return            # a poll is outstanding and nothing is queued for it
            g = peer.poll(w, sid)
            self.polls[sid].append(g)
            if not g.done:
                return
            if g.status != 200:
                return

    def observed(self, sid):
        """Merged arrival sequence [(step, idx, tag, transport)] at one client."""
        obs = []
        for r in self.polls.get(sid, []):
            if r.done and r.status == 200:
                for i, (t, d) in enumerate(peer.decode_body(r.text())):
                    if t == 4:
                        obs.append((r.step_done, i, tag_of(d), 'polling', r.step_start))
        s = self.ws.get(sid)
        if s is not None:
            for i, f in enumerate(s.frames):
                if isinstance(f[2], str) and f[2][:1] == 'b' and not getattr(self, '_b64_flagged', False):
                    self._b64_flagged = True
                    self.flag('binary_as_text_on_websocket', 'a binary message was written to the WebSocket as the text frame %r '
                              '(base64 is the representation for text-only channels)' % (f[2][:24],), trigger=self.params['variant'])
                t, d = peer.decode_frame(f[2])
                if t == 4:
                    obs.append((f[1], i, tag_of(d), 'websocket', f[1]))
        obs.sort(key=lambda x: (x[0], x[1]))
        return obs

    def finish(self):
        w = self.world
        p = self.params
        if p['variant'] == 'overlapping_opens':
            return self.finish_overlapping()
        if p['variant'] == 'backlog_closing':
            self.world.run_until(self.horizon)
            for r in self.polls[self.A]:
                if r.done and r.status == 200:
                    pk = peer.decode_body(r.text())
                    if len(pk) > 16:
                        self.flag('batch_over_receiver_limit', 'a poll answered while the session was closing carries %d packets; receivers '
                                  'refuse bodies of more than 16' % len(pk), trigger='backlog_closing')
            return
        if p['variant'] == 'backlog_ping':
            self.finish_backlog_ping()
        for sid in [self.A] + ([self.B] if self.B else []):
            self.drain(sid)
        variant = p['variant']
        for sid in [self.A] + ([self.B] if self.B else []):
            obs = self.observed(sid)
            tags = [o[2] for o in obs]
            mine = [(t, c, st) for (t, s, c, st) in self.sends if s == sid]
            foreign = [t for (t, s, c, st) in self.sends if s != sid]
            if len(tags) != len(set(tags)):
                self.flag('duplicate_delivery', 'client %s saw %r' % (sid[-4:], obs), trigger=variant)
            if any(t in foreign for t in tags):
                self.flag('cross_delivery', 'client %s saw a message of another session: %r' % (sid[-4:], obs), trigger=variant)
            unknown = [t for t in tags if t not in [m[0] for m in mine] and t not in foreign]
            if unknown:
                self.flag('phantom_message', 'client %s saw %r' % (sid[-4:], unknown), trigger=variant)
            # order: only between sends where the earlier call had returned before the later one started
            pos = {t: i for i, t in enumerate(tags)}
            for i in range(len(mine)):
                for j in range(i + 1, len(mine)):
                    ti, ci, si = mine[i]
                    tj, cj, sj = mine[j]
                    same_task = ci is cj
                    if (ci.done or same_task) and ti in pos and tj in pos and pos[ti] > pos[tj]:
                        # was call i complete before call j was issued?  and did the carrier of the later
                        # message complete before the carrier of the earlier one even started (overlapping
                        # responses on different connections have no defined arrival order)?
                        oi, oj = obs[pos[ti]], obs[pos[tj]]
                        same_carrier = oi[3] == oj[3] == 'websocket' or (oi[0], oi[4]) == (oj[0], oj[4])
                        if (same_task or (getattr(ci, 'step_done', None) is not None and ci.step_done <= sj)) and \
                                (same_carrier or oj[0] < oi[4]):
                            self.flag('reordered', 'client %s saw %r, sent %r' % (sid[-4:], tags, [m[0] for m in mine]), trigger=variant)
            # completeness
            closed_first = sid in self.closed_by_client or sid not in w.live_sids()
            if not closed_first:
                missing = [t for (t, c, st) in mine if c is not None and c.done and not c.exc and t not in tags]
                if missing:
                    self.flag('message_lost', 'client %s never received %r (saw %r; transport %s)' %
                              (sid[-4:], missing, obs, w.transport(sid)), trigger=variant)
        # polls started after the upgrade began return only NOOP
        s = self.ws.get(self.A)
        if s is not None and s.accepted and variant.startswith('upgrade'):
            for r in self.polls[self.A]:
                if r.step_start < s.step_accept or not r.done:
                    continue
                if self.fail_step is not None and r.step_done > self.fail_step:
                    continue      # served (at least partly) after the failing event was delivered
                if variant == 'upgrade_ok' or variant == 'upgrade_no_pending_poll' or self.fail_step is not None:
                    if r.status == 200:
                        kinds = [t for t, d in peer.decode_body(r.text())]
                        if any(t != 6 for t in kinds):
                            self.flag('poll_during_upgrade_not_noop', 'poll started at step %d (accept at %d) returned %r'
                                      % (r.step_start, s.step_accept, r.body), trigger=variant)
        for r in [x for v in self.polls.values() for x in v]:
            if r.exc:
                self.flag('exception_escaped', 'poll raised %s at %s' % (r.exc['type'], r.exc['site']), trigger=variant)

    def observation(self):
        if self.params['variant'] == 'overlapping_opens':
            return dict(getattr(self, '_obs', {}), scenario=[self.params['impl'], 'overlapping_opens'])
        out = {}
        for sid in [self.A] + ([self.B] if self.B else []):
            out[sid[-4:]] = [(o[2], o[3]) for o in self.observed(sid)]
        out['transport'] = self.world.transport(self.A)
        out['scenario'] = [self.params['impl'], self.params['variant'], self.params['k']]
        return out


def param_list(ctx):
    ps = []
    for impl in ('sync', 'async'):
        for v in VARIANTS:
            ks = (2, 3) if v in ('upgrade_ok', 'upgrade_fail_frame', 'upgrade_fail_accept') else (2,)
            if v.endswith('send_fault'):
                ks = (3,)
            if v == 'two_readers':
                ks = (3, 4)
            if v.endswith('backpressure'):
                ks = (2, 3)
            if v.startswith('backlog'):
                ks = (17, 20, 40)
            if v == 'backlog_closing':
                ks = (20, 40)
            if v == 'backlog_ping':
                ks = (515, 1406, 115, 1505)      # a * 100 + b: a messages before the PING, b after it
            if not ctx.quick and v in ('polling_only', 'upgrade_fail_close', 'upgrade_no_pending_poll'):
                ks = (2, 3)
            for k in ks:
                ps.append({'impl': impl, 'variant': v, 'k': k})
    return ps


def _short(choices):
    t = ''.join(map(str, choices))
    return t if len(t) <= 90 else t[:90] + '...(%d points)' % len(t)


def run(ctx):
    rep = report.Report('C03', 'model_checking')
    bound = 1 if ctx.quick else 2
    params = param_list(ctx)
    if not ctx.quick:
        params = [dict(q, _free_switch=True) for q in params if not q['variant'].startswith('backlog')] + \
                 [q for q in params if q['variant'].startswith('backlog')]
    st, viols, samples, gate = core.run_search(Delivery, params, bound, ctx.workers, ctx.seed)
    if ctx.quick:
        # one level deeper on the scenarios where the transport switches
        deep = [q for q in params if q['variant'] in ('upgrade_ok', 'upgrade_no_pending_poll') and q['k'] == 2]
        st2, viols2, _, _ = core.run_search(Delivery, deep, 2, ctx.workers, ctx.seed)
        st.merge(st2)
        viols += viols2
    for v in viols:
        rep.add(report.Violation(
            dict({'impl': v['params']['impl'], 'kind': v['kind']}, **v['sig']),
            '[%s %s k=%d choices=%s] %s' % (v['params']['impl'], v['params']['variant'], v['params']['k'],
                                          _short(v['choices']), v['text']),
            {'params': v['params'], 'choices': v['choices']}, weight=(v['dev'], len(v['choices']))))
    rep.coverage = {
        'states': len(st.outcomes), 'transitions': st.points, 'traces_validated_against_impl': st.executions,
        'samples': samples[:4],
        'evaluations': st.executions, 'distinct_nontrivial': len(st.outcomes),
        'rule': 'scenarios %r x message count x {Server, AsyncServer}: client script and application send script (and a second '
                'session) as parallel scripts; every interleaving of the scripts at quiescence, and every schedule with at most %d '
                'deviation(s) (environment action injected while the server is still running; preemption at a synchronisation '
                'point), each executed on the real server from a fresh world; drain epilogue; ledger oracle. states = distinct '
                'observation digests (per-client arrival sequences + transport); transitions = decision points executed.'
                % (VARIANTS, bound),
        'exhaustive': True, 'bound_completed': bound, 'caps_hit': st.caps,
        'executions_by_deviations': {str(k): v for k, v in sorted(st.by_dev.items())},
        'max_decision_points': st.max_points, 'scenarios': len(params), 'determinism_gate': gate,
    }
    rep.assumptions = [
        'computation takes zero virtual time; no timer fires inside a scenario (ping_interval=50)',
        'order is required only between sends whose earlier call had returned before the later one was issued',
        'threaded server: schedules are explored at synchronisation-operation granularity (queue, event, thread, WebSocket, start_response, handler entry)',
        'asyncio server: the loop\'s FIFO is never permuted; nondeterminism is when the environment speaks',
    ]
    return rep


def replay(ctx, payload):
    r = report.unbytes(payload['replay'])
    ex = core.execute(Delivery, r['params'], r['choices'], want_labels=True)
    for lab in ex.labels:
        print('  ', lab)
    print('observation:', ex.obs)
    for v in ex.violations:
        print('REPLAY VIOLATION:', v)
    return 1 if ex.violations else 0
