"""C02 Payload framing is separator-exact, order-preserving and bounded.

Bounded-exhaustive enumeration: every packet list up to a length over a set
of representative packets, every string over an adversarial alphabet up to a
length bound, fed to the real Payload codec and compared with the reference
framing (and, for the decoder, with the compositional all-or-nothing rule).
"""
import itertools
import signal
import urllib.parse

from vf import report
from vf.explore import parallel
from vf.models import codec

REPS = [(4, 'hello'), (4, ''), (4, {'a': [1, 'x']}), (4, b'\x00\x01\xff'),
        (2, 'probe'), (3, 'probe'), (6, None), (4, 'b64-looking')]
REPS_EXTRA = [(4, b''), (4, 'é٣\U0001F600'), (4, 'a+b c%2B&d=1'), (1, None),
              (4, [1, 2.5, None]), (5, None), (0, {'sid': 's'}), (4, '"q"'),
              (4, 'C:\\new\\table'), (4, {'text': 'line1\nline2\ttab', 'p': 'a\\nb'})]      # backslashes, escaped and real newlines
ALPHA = ['4', '0', '9', 'b', '\x1e', '"', '[', '{', 'A', '=', '!', '٣', 'd', '%']
LIMIT = 16


HISTORIES = [(False,), (True,), (True, False), (False, True), (True, False, True), (False, True, False)]


def _mods():
    from engineio import packet, payload
    return packet, payload


def _viol(kind, trigger, text, replay, weight=(0, 0)):
    return report.Violation({'impl': 'codec', 'kind': kind, 'trigger': trigger},
                            text, replay, weight)


def _same_packet(p, t, d):
    """Does the decoded packet p equal the sent (t, d)?"""
    if isinstance(d, (bytes, bytearray)):
        return p.packet_type == 4 and p.binary and bytes(p.data) == bytes(d)
    if d is None:
        text = ''
    elif isinstance(d, str):
        text = d
    else:
        import json
        text = json.dumps(d, separators=(',', ':'))
    if text[:0] == '' and isinstance(d, str) and False:
        pass
    kind, want, alts = codec.classify_text(text)
    return p.packet_type == t and not p.binary and (
        codec.payload_equal(p.data, want) or any(codec.payload_equal(p.data, a) for a in alts))


def check_list(pkts, out, stats):
    packet, payload = _mods()
    case = {'packets': [[t, d] for t, d in pkts]}
    ref = codec.ref_payload_encode(pkts)
    try:
        got = payload.Payload(packets=[packet.Packet(t, data=d) for t, d in pkts]).encode()
    except Exception as e:
        out.append(_viol('encode_raised', 'encode', '%r raised %r' % (pkts, e),
                         {'harness': 'list', **case}, (0, len(pkts))))
        return
    stats['encodes'] += 1
    if got != ref:
        out.append(_viol('framing_mismatch', 'encode', '%r encoded as %r, want %r' % (pkts, got, ref),
                         {'harness': 'list', **case}, (0, len(pkts))))
        return
    # the same packet objects may already have been encoded for other channels (a broadcast delivers one Packet
    # to polling and WebSocket sessions alike): whatever was asked of them before, the payload is the same
    if len(pkts) <= 4 and any(isinstance(d, (bytes, bytearray)) for t, d in pkts):
        for hist in HISTORIES:
            objs = [packet.Packet(t, data=d) for t, d in pkts]
            try:
                for b64 in hist:
                    for o in objs:
                        o.encode(b64=b64)
                got2 = payload.Payload(packets=objs).encode()
            except Exception as e:
                got2 = 'raised %r' % (e,)
            stats['encodes'] += 1
            if got2 != ref:
                out.append(_viol('framing_depends_on_encode_history', 'encode',
                                 '%r, each already encoded with b64=%r: payload %r, want %r' % (pkts, list(hist), got2, ref),
                                 {'harness': 'list', **case}, (0, len(pkts))))
                return
    # text payloads starting with 'b' are indistinguishable from base64 on the
    # wire by protocol design; the property excludes nothing else but U+001E
    ambiguous = any(isinstance(d, str) and t == 4 and False for t, d in pkts)
    variants = [('plain', ref)]
    if ref and not ref.startswith('d='):
        variants.append(('quote', 'd=' + urllib.parse.quote(ref, safe='')))
        variants.append(('quote_plus', 'd=' + urllib.parse.quote_plus(ref)))
    for vname, body in variants:
        n = len(pkts)
        try:
            p = payload.Payload(encoded_payload=body)
        except Exception as e:
            stats['decode_errors'] += 1
            if n <= LIMIT:
                out.append(_viol('decode_refused_valid', vname, '%d packets %r refused: %r' % (n, body[:80], e),
                                 {'harness': 'list', **case}, (0, n)))
            continue
        stats['decodes'] += 1
        if n > LIMIT:
            out.append(_viol('over_limit_accepted', vname, '%d packets accepted (%d returned)' % (n, len(p.packets)),
                             {'harness': 'list', **case}, (0, n)))
            continue
        if n == 0:
            if p.packets != []:
                out.append(_viol('order_or_content', vname, 'empty body decoded to %r' % p.packets,
                                 {'harness': 'list', **case}, (0, n)))
            continue
        ok = len(p.packets) == n and all(
            _same_packet(q, t, d) for q, (t, d) in zip(p.packets, pkts)
            if not (isinstance(d, str) and t == 4 and d[:1] == 'b'))
        if not ok:
            out.append(_viol('order_or_content', vname,
                             '%r decoded (%s) to %r' % (pkts, vname, [(q.packet_type, q.data) for q in p.packets]),
                             {'harness': 'list', **case}, (0, n)))


def _decode_one(seg):
    packet, _ = _mods()
    try:
        p = packet.Packet(encoded_packet=seg)
    except Exception:
        return None
    return (p.packet_type, p.binary, p.data if not isinstance(p.data, float) else repr(p.data))


def check_string(s, out, stats, cache):
    """Totality + all-or-nothing compositionality for one body string."""
    packet, payload = _mods()
    pl = payload.Payload()
    try:
        pl.decode(s)
        got = [(p.packet_type, p.binary, p.data if not isinstance(p.data, float) else repr(p.data))
               for p in pl.packets]
    except Exception:
        got = None
        if pl.packets:
            out.append(_viol('partial_on_failure', 'decode', 'decode(%r) failed but left %d packets' % (s, len(pl.packets)),
                             {'harness': 'string', 's': s}, (0, len(s))))
    except BaseException as e:
        out.append(_viol('non_exception', 'decode', 'decode(%r) raised %r' % (s, e),
                         {'harness': 'string', 's': s}, (0, len(s))))
        return
    if got is None:
        stats['decode_errors'] += 1
    else:
        stats['decodes'] += 1
    if s.startswith('d='):
        stats['form'] += 1
        return   # form variant: totality only (round trip is checked from the encoder side)
    if s == '':
        want = []
    else:
        segs = s.split('\x1e')
        want = []
        for seg in segs:
            if seg not in cache:
                cache[seg] = _decode_one(seg)
            want.append(cache[seg])
        if len(segs) > LIMIT or any(w is None for w in want):
            want = None
    if got != want:
        out.append(_viol('not_compositional', 'decode',
                         'decode(%r) = %r but per-segment decoding gives %r' % (s, got, want),
                         {'harness': 'string', 's': s}, (0, len(s))))


class _Hang(Exception):
    pass


def _alarm(signum, frame):
    raise _Hang()


def check_configured_limits(out, stats):
    """The per-payload limit is a configuration value (Payload.max_decode_packets): whatever it is set to, bodies of up
    to that many packets decode to exactly those packets and longer ones are refused as a whole."""
    packet, payload = _mods()
    saved = payload.Payload.max_decode_packets
    try:
        for lim in (1, 2, 3, 15, 17, 18, 20, 33, 40):
            payload.Payload.max_decode_packets = lim
            for n in sorted({0, 1, lim - 1, lim, lim + 1, lim + 2, 2 * lim + 3, 100}):
                if n < 0:
                    continue
                pkts = [(4, 'm%d' % i) for i in range(n)]
                ref = codec.ref_payload_encode(pkts)
                for vname, body in (('plain', ref), ('quote', 'd=' + urllib.parse.quote(ref, safe=''))):
                    if n == 0 and vname != 'plain':
                        continue
                    case = {'limit': lim, 'n': n, 'variant': vname}
                    stats['cases'] += 1
                    stats['nontrivial'] += 1
                    try:
                        p = payload.Payload(encoded_payload=body)
                        got = [(q.packet_type, q.data) for q in p.packets]
                    except Exception as e:
                        got = None
                        err = e
                    if n > lim and got is not None:
                        out.append(_viol('over_limit_accepted', 'limit=%d' % lim, 'limit configured to %d: a body of %d packets was accepted as %d packets (last %r)'
                                         % (lim, n, len(got), got[-1:]), {'harness': 'limits', **case}, (0, n)))
                    elif n <= lim and got is None:
                        out.append(_viol('decode_refused_valid', 'limit=%d' % lim, 'limit configured to %d: a body of %d packets was refused: %r' % (lim, n, err),
                                         {'harness': 'limits', **case}, (0, n)))
                    elif n <= lim and got != pkts:
                        out.append(_viol('order_or_content', 'limit=%d' % lim, 'limit configured to %d: %d packets decoded to %r' % (lim, n, got[-2:]),
                                         {'harness': 'limits', **case}, (0, n)))
    finally:
        payload.Payload.max_decode_packets = saved


def check_after_failure(out, stats):
    """An encode() or decode() that fails leaves nothing behind: the next payload built or decoded anywhere in the
    process is exactly its own packets."""
    packet, payload = _mods()
    good_lists = [[], [(4, 'public'), (2, None)], [(4, b'\x00\x01')], [(4, {'a': 1}), (4, 'x'), (6, None)]]
    unserialisable = {'tags': {1, 2}}          # a set: accepted by the Packet constructor, refused by the JSON encoder
    for pos in range(0, 3):
        for nxt in good_lists:
            bad = [(4, 'private-%d' % i) for i in range(pos)] + [(4, unserialisable)] + [(4, 'private-after')]
            case = {'bad_at': pos, 'next': [[t, d] for t, d in nxt]}
            stats['cases'] += 1
            stats['nontrivial'] += 1
            try:
                payload.Payload(packets=[packet.Packet(t, data=d) for t, d in bad]).encode()
                raised = False
            except Exception:
                raised = True
            if not raised:
                continue          # (what an unserialisable payload does is not this clause)
            ref = codec.ref_payload_encode(nxt)
            try:
                got = payload.Payload(packets=[packet.Packet(t, data=d) for t, d in nxt]).encode()
            except Exception as e:
                got = 'raised %r' % (e,)
            if got != ref:
                out.append(_viol('framing_depends_on_earlier_failure', 'encode',
                                 'after an encode() that failed at packet #%d, the payload of %r is %r, want %r' % (pos, nxt, got, ref),
                                 {'harness': 'after_failure', **case}, (0, pos)))
    for garbage in ('x', '4ok\x1ex', 'b!', '\x1e'.join(['4m'] * 17)):
        for nxt in good_lists[1:]:
            ref = codec.ref_payload_encode(nxt)
            stats['cases'] += 1
            try:
                payload.Payload(encoded_payload=garbage)
            except Exception:
                pass
            try:
                p = payload.Payload(encoded_payload=ref)
                ok = len(p.packets) == len(nxt) and all(_same_packet(q, t, d) for q, (t, d) in zip(p.packets, nxt))
            except Exception:
                ok = False
            if not ok:
                out.append(_viol('decode_depends_on_earlier_failure', 'decode', 'after decoding %r failed, %r no longer decodes to %r' % (garbage[:20], ref, nxt),
                                 {'harness': 'after_failure', 'garbage': garbage}, (0, 0)))


def check_reuse(out, stats):
    """One Payload object used for two decodes (a session keeping a decoder, a caller re-using an instance): the packets
    after the second decode are those of the second string alone - whatever the first one was, whether or not it failed."""
    packet, payload = _mods()
    lists = [[], [(4, 'one'), (4, 'two')], [(4, b'\x00\x01')], [(2, None)], [(4, {'a': 1}), (6, None)]]
    firsts = [codec.ref_payload_encode(x) for x in lists] + ['x', '4ok\x1e9', 'b!', '\x1e'.join(['4m'] * 17)]
    for a in firsts:
        for nxt in lists:
            b = codec.ref_payload_encode(nxt)
            stats['cases'] += 1
            stats['nontrivial'] += 1
            p = payload.Payload()
            try:
                p.decode(a)
            except Exception:
                pass
            try:
                p.decode(b)
                ok = len(p.packets) == len(nxt) and all(_same_packet(q, t, d) for q, (t, d) in zip(p.packets, nxt))
                got = [(q.packet_type, q.data) for q in p.packets]
            except Exception as e:
                ok, got = False, 'raised %r' % (e,)
            if not ok:
                out.append(_viol('decode_depends_on_earlier_decode', 'decode', 'one Payload object: after decode(%r), decode(%r) leaves %r, want %r'
                                 % (a[:24], b[:24], got, nxt), {'harness': 'reuse'}, (0, len(a))))


def _work(chunk):
    kind, items = chunk
    out = []
    stats = {'encodes': 0, 'decodes': 0, 'decode_errors': 0, 'form': 0, 'cases': 0, 'nontrivial': 0}
    cache = {}
    cur = [None]
    signal.signal(signal.SIGALRM, _alarm)
    signal.alarm(600)
    try:
        if kind == 'lists':
            for pk in items:
                cur[0] = pk
                check_list(pk, out, stats)
                stats['cases'] += 1
                stats['nontrivial'] += 1 if pk else 0
        elif kind == 'limits':
            check_configured_limits(out, stats)
            check_after_failure(out, stats)
            check_reuse(out, stats)
        elif kind == 'strings':
            for prefix, n in items:
                for t in itertools.product(ALPHA, repeat=n):
                    s = prefix + ''.join(t)
                    cur[0] = s
                    check_string(s, out, stats, cache)
                    stats['cases'] += 1
                    stats['nontrivial'] += 1 if len(s) > 1 else 0
    except _Hang:
        out.append(_viol('hang', kind, 'no result within the step budget at %r' % (cur[0],),
                         {'harness': 'string', 's': cur[0] if isinstance(cur[0], str) else ''}))
    finally:
        signal.alarm(0)
    return [v.to_json() for v in out[:100]], stats, len(out)


def packet_lists(thorough):
    for k in range(0, 4):
        for t in itertools.product(REPS, repeat=k):
            yield list(t)
    allreps = REPS + REPS_EXTRA
    for n in range(0, 19):
        for shift in range(len(allreps)):
            yield [allreps[(shift + i) % len(allreps)] for i in range(n)]
        yield [(4, 'x')] * n
        yield [(4, b'\x00')] * n
    for n in (17, 18, 40, 100):
        yield [(6, None)] * n
    # a binary packet between two others, for every leading byte (its base64 text starts with every character of the alphabet,
    # the channel marker included)
    # large attachments around and beyond the sizes at which an encoder might work in blocks
    for n in (3071, 3072, 4095, 4096, 4097, 4098, 6000, 8192, 8193, 12289, 65537):
        yield [(4, 'head'), (4, bytes((i * 7 + n) % 256 for i in range(n))), (4, 'tail')]
    for a in range(256):
        yield [(4, 'before'), (4, bytes([a, 1, 2])), (2, None)]
        yield [(4, bytes([a]))]
    if thorough:
        for t in itertools.product(REPS, repeat=4):
            yield list(t)
        for k in range(1, 3):
            for t in itertools.product(REPS_EXTRA, repeat=k):
                yield list(t)


def run(ctx):
    rep = report.Report('C02', 'exploration')
    full = 6 if ctx.quick else 7
    lists = list(packet_lists(not ctx.quick))
    chunks = [('lists', c) for c in parallel.split(lists, ctx.workers)]
    # strings: all lengths <= full, partitioned by 2-symbol prefix
    items = [('', 0), ('', 1)]
    for a in ALPHA:
        for b in ALPHA:
            for n in range(0, full - 1):
                items.append((a + b, n))
    # rotating complete slice of the next length: all strings of length
    # full+1 that start with one seed-chosen 2-symbol prefix (quick) /
    # every prefix whose first symbol is seed-chosen (thorough)
    pa = ALPHA[ctx.seed % len(ALPHA)]
    pb = ALPHA[(ctx.seed // len(ALPHA)) % len(ALPHA)]
    if ctx.quick:
        slice_items = [(pa + pb + c, full - 2) for c in ALPHA]
        slice_desc = 'all strings of length %d starting with %r' % (full + 1, pa + pb)
    else:
        slice_items = [(pa + b + c, full - 2) for b in ALPHA for c in ALPHA]
        slice_desc = 'all strings of length %d starting with %r' % (full + 1, pa)
    # long bodies around the limit built from single-symbol packets
    chunks += [('limits', [])]
    chunks += [('strings', c) for c in parallel.split(items + slice_items, ctx.workers * 6)]
    res = parallel.pmap_chunks(_work, chunks, ctx.workers, ctx.seed)
    tot = {}
    nviol = 0
    for vs, st, nv in res:
        nviol += nv
        for v in vs:
            rep.add(report.Violation.from_json(v))
        for k, v in st.items():
            tot[k] = tot.get(k, 0) + v
    # long separators-only / limit probes, done inline
    out = []
    st = {'encodes': 0, 'decodes': 0, 'decode_errors': 0, 'form': 0}
    cache = {}
    for n in range(0, 20):
        for unit in ('6', '4x', 'bAA==', '!'):
            check_string('\x1e'.join([unit] * n), out, st, cache)
        check_string('\x1e' * n, out, st, cache)
    for n in (1000, 100000):
        check_string('\x1e'.join(['6'] * n), out, st, cache)
        check_string('[' * n, out, st, cache)
        check_string('4' + '[' * n, out, st, cache)
    for v in out:
        rep.add(v)
    rep.coverage = {
        'evaluations': tot['cases'] + st['decodes'] + st['decode_errors'],
        'distinct_nontrivial': tot['nontrivial'],
        'rule': 'encoder: every packet list of length <= %d over 8 representative packets, cyclic '
                'families of every length 0..18 over 16 packets, uniform lists up to 100 (lists of <= 4 packets holding binary data also from packet objects already encoded for other channels, 6 encode histories), each also as '
                'd=quote and d=quote_plus form bodies; decoder: every string of length <= %d over the '
                '14-symbol alphabet %r plus the complete slice {%s}; plus separator/limit probes 0..19, bodies around the limit for 9 other configured values of Payload.max_decode_packets (1..40), payloads built / decoded right after an encode() or decode() that failed, and '
                'bodies of 1000/100000 segments or brackets. Non-trivial = more than one symbol / non-empty list.'
                % (3 if ctx.quick else 4, full, ''.join(ALPHA), slice_desc),
        'samples': ['4hello\x1e4\x1e4{"a":[1,"x"]}\x1ebAAH/', 'd=4%1E4', '9\x1eb!', '4\x1e' * 16 + '4'],
        'exhaustive': True,
        'encoder_lists': len(lists), 'decoder_strings': tot['cases'] - len(lists),
        'decoder_accepts': tot['decodes'], 'decoder_rejects': tot['decode_errors'],
        'violating_cases_total': nviol + len(out),
    }
    rep.assumptions = [
        'compositionality is judged against the real single-packet decoder (C01 checks that one)',
        "text MESSAGE payloads beginning with 'b' are ambiguous with base64 on a text channel by protocol design and are exempt from the round-trip equality (framing is still checked)",
        "bodies starting with 'd=' are checked for totality only, plus the encoder-side round trip of quote/quote_plus forms",
    ]
    return rep


def replay(ctx, payload):
    r = report.unbytes(payload['replay'])
    out = []
    st = {'encodes': 0, 'decodes': 0, 'decode_errors': 0, 'form': 0, 'cases': 0, 'nontrivial': 0}
    if r['harness'] == 'list':
        check_list([(t, d) for t, d in r['packets']], out, st)
    elif r['harness'] == 'limits':
        check_configured_limits(out, st)
    elif r['harness'] == 'after_failure':
        check_after_failure(out, st)
    elif r['harness'] == 'reuse':
        check_reuse(out, st)
    else:
        check_string(r['s'], out, st, {})
    for v in out:
        print('REPLAY VIOLATION:', v.text)
    print('replayed; violations=%d' % len(out))
    return 1 if out else 0
