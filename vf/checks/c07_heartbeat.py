"""C07 Heartbeat: periodic PING, dead peers dropped in bounded time, live peers
never.

Timed schedule search on the real servers: a reactive client automaton (keeps
a poll outstanding / reads frames, answers each PING after an enumerated
delay, then falls mute or vanishes), an application send placed on the time
lattice, monitoring on/off, a grid of (interval, timeout, grace) settings,
polling and WebSocket; every scenario under every same-instant ordering and up
to D deviations. The virtual clock moves only when nothing is runnable.
"""
import itertools

from vf import report
from vf.explore import core
from vf.vworld import peer

GRID = [(1.0, 1.0, 0), (2.0, 0.5, 0), (1.0, 2.0, 0), (2.0, 1.0, 0), (0.5, 0.25, 0), (1.5, 0.5, 0.5), (3.0, 2.0, 1.0), (4.0, 0.5, 0)]
TIMED = ['ping timeout', 'transport close', 'transport error']
EPS = 1e-9


def delay_menu(to):
    return {'zero': 0.0, 'early': to - 0.125, 'exact': to, 'late': to + 0.125}


class Heartbeat(core.Scenario):
    def build(self):
        p = self.params
        self.iv, self.to, self.grace = p['grid']
        iv = (self.iv, self.grace) if self.grace else self.iv
        extra = {}
        if p.get('trace') and p['impl'] == 'sync':
            extra['trace_funcs'] = p['trace']       # line-granular preemption inside the heartbeat task
        from vf.checks.c12_admission import RejectOnHeader
        w = self.world = peer.make_world(p['impl'], server_kwargs=dict(
            ping_interval=iv, ping_timeout=self.to, monitor_clients=p['monitor'], async_handlers=False),
            behaviour=RejectOnHeader(), **extra)
        if p.get('after_idle'):
            # an earlier "generation": a session that came and went (or an open the application rejected), then a server
            # with no sessions for a few ping_timeouts, before the session under observation connects
            if p['after_idle'] in ('closed_session', 'disconnect_all'):
                s0 = peer.sid_of(peer.open_polling(w))
                peer.post(w, s0, '1')
                if p['after_idle'] == 'disconnect_all':
                    # ... and the application then disconnected "everybody" (the table is empty by now; with sessions in it
                    # the threaded disconnect() blocks - known finding KF-C15)
                    w.http('GET', peer.BASEQ + '&sid=' + s0)
                    w.run()
                    w.call('disconnect')
                    w.run()
            else:
                w.http('GET', peer.BASEQ, headers={'X-Reject': '1'})
                w.run()
            w.run_until(w.now + 3.5 * self.to + 0.0625)
        t0 = self.t0 = w.now
        self.delays = [delay_menu(self.to)[d] for d in p['delays']]
        self.mode = p['mode']
        self.ws = None
        self.tr = p['transport']
        if self.tr == 'ws_dropped':
            # a WebSocket open whose peer is gone before the handshake can be answered: the application has seen the
            # connect event, nobody will ever speak for this session
            w.ws(peer.WSQ, fail_accept=True)
            w.run()
            self.sid = [e[1] for e in w.events if e[0] == 'connect'][-1]
            self.stopped = True
        elif self.tr == 'ws_only':
            self.ws = peer.ws_open(w)
            self.sid = [e[1] for e in w.events if e[0] == 'connect'][-1]
        else:
            self.sid = peer.sid_of(peer.open_polling(w))
            if self.tr == 'websocket':
                self.ws = peer.do_upgrade(w, self.sid)
        # a crowd: other sessions opened at the same instant whose clients are gone from the start (the monitor has several
        # dead sessions to find in one sweep)
        self.crowd = [peer.sid_of(peer.open_polling(w)) for _ in range(p.get('crowd', 0))]
        self.polls = []
        self.pings_seen = []        # instants at which the client saw a PING
        self.pong_at = []           # instants at which the client sent a PONG
        self.frames_seen = 0
        self.stopped = getattr(self, 'stopped', False)
        self.client = []            # polls (immediate)
        self.pongs = []             # timed PONGs
        self.app = []
        self.scripts = [self.client, self.pongs, self.app]
        if self.tr == 'polling':
            self.client.append(self._poll_action())
        if p.get('client_msg'):
            # the peer sends application data right after the first PING, but never a PONG
            def talk(sc):
                if sc.tr == 'polling':
                    peer.post(sc.world, sc.sid, '4still-talking', run=False)
                else:
                    sc.world.ws_send(sc.ws, '4still-talking')
            self.app.append(core.Action('client_msg', talk, None, t0 + self.iv + 0.125))
        if p.get('straddle'):
            # the upgrade handshake starts just before the first PING is due and completes just after it
            e1 = t0 + self.iv

            def connect(sc):
                sc.ws = peer.ws_upgrade(sc.world, sc.sid, run=False)

            def probe(sc):
                sc.world.ws_send(sc.ws, '2probe')

            def upgrade(sc):
                sc.world.ws_send(sc.ws, '5')
                sc.tr = 'websocket'
            self.app += [core.Action('ws_connect', connect, None, e1 - 0.125),
                         core.Action('probe', probe, lambda sc: sc.ws is not None and sc.ws.accepted, e1 - 0.125),
                         core.Action('upgrade', upgrade, lambda sc: '3probe' in peer.ws_frames(sc.ws), e1 + 0.125)]
        if p.get('stall'):
            # the client starts an upgrade (probe answered) and stalls for ever before UPGRADE; it stops polling meanwhile
            ts = t0 + self.iv + (0.125 if p['stall'] == 'after_ping' else -0.125)

            def connect2(sc):
                sc.stopped = True
                sc.ws2 = peer.ws_upgrade(sc.world, sc.sid, run=False)

            def probe2(sc):
                sc.world.ws_send(sc.ws2, '2probe')
            self.ws2 = None
            self.app += [core.Action('ws_connect', connect2, None, ts),
                         core.Action('probe', probe2, lambda sc: sc.ws2 is not None and sc.ws2.accepted, ts)]
        if p.get('send_at') is not None:
            t = t0 + p['send_at']
            self.app.append(core.Action('send', lambda sc: setattr(sc, 'send_call', (sc.world.now, sc.world.call('send', sc.sid, 'app-msg'))),
                                        None, t))
        last = t0 + (len(self.delays) + 1) * (self.iv + self.to + 0.125) + self.iv
        self.horizon = last + 2 * self.iv + 4 * self.to + 1.0
        self.send_call = None

    def _poll_action(self):
        def fire(sc):
            sc.polls.append(peer.poll(sc.world, sc.sid, run=False))
        return core.Action('poll', fire)

    def _pong_action(self, at):
        def fire(sc):
            sc.pong_at.append(sc.world.now)
            if sc.tr == 'polling':
                sc.pong_reqs = getattr(sc, 'pong_reqs', []) + [peer.post(sc.world, sc.sid, '3', run=False)]
            else:
                sc.world.ws_send(sc.ws, '3')
            if sc.params.get('dup') and not getattr(sc, 'dup_done', False):
                # the first PONG reaches the server a second time (a retransmitted POST, a repeated frame)
                sc.dup_done = True
                sc.pongs.append(sc._pong_action(sc.world.now + sc.params['dup']))
        return core.Action('pong', fire, None, at)

    def _on_ping(self, t):
        k = len(self.pings_seen)
        self.pings_seen.append(t)
        if k < len(self.delays):
            # the delay is measured from the PING's emission, which for a client that was listening is now
            self.pongs.append(self._pong_action(t + self.delays[k]))
            return True
        # no more answers: mute (keeps reading) or vanish (stops reading)
        if self.mode == 'vanish':
            self.stopped = True
            if self.ws is not None:
                self.world.ws_vanish(self.ws)
        return not self.stopped

    def step_check(self):
        w = self.world
        if self.params.get('straddle') and self.ws is not None:
            fr = self.ws.frames
            while self.frames_seen < len(fr):
                f = fr[self.frames_seen]
                self.frames_seen += 1
                if f[2] == '2' and not self.stopped:
                    self._on_ping(f[0])
            if self.polls and self.polls[-1].done:
                self.polls[-1]._seen = True
            return
        if self.tr == 'polling':
            if self.polls and self.polls[-1].done and not getattr(self.polls[-1], '_seen', False):
                r = self.polls[-1]
                r._seen = True
                cont = not self.stopped
                if r.status == 200:
                    for t, d in peer.decode_body(r.text()):
                        if t == 2:
                            cont = self._on_ping(r.t_done) and cont
                        if t == 1:
                            cont = False
                else:
                    cont = False
                if cont and not self.stopped:
                    self.client.append(self._poll_action())
        elif self.ws is not None:
            fr = self.ws.frames
            while self.frames_seen < len(fr):
                f = fr[self.frames_seen]
                self.frames_seen += 1
                if f[2] == '2' and not self.stopped:
                    self._on_ping(f[0])

    def finish(self):
        w = self.world
        p = self.params
        iv, to = self.iv, self.to
        trig = '%s/%s/%s' % (p['transport'], '+'.join(p['delays']) or 'none', p['mode'])
        disc = [e for e in w.events if e[0] == 'disconnect' and e[1] == self.sid]
        # (a) PING instants: open + interval, then PONG receipt + interval
        t0 = self.t0
        expect = [t0 + (iv + 0.125 if p.get('straddle') else iv)]      # a PING emitted during the handshake is delivered once it completes
        for k, t in enumerate(self.pong_at):
            expect.append(t + iv)
        punctual = all(d in ('zero', 'early') for d in p['delays'])
        seen = list(self.pings_seen)
        if p.get('dup') and disc:
            # two PING cycles: the one whose timer wakes after the session has been dropped emits nothing
            expect = [e for e in expect if e < disc[0][3] - EPS]
            seen = [e for e in seen if e < disc[0][3] - EPS]
        late_idx = [i for i, d in enumerate(p['delays']) if d in ('exact', 'late')]
        upto = (late_idx[0] + 1) if late_idx else len(expect)
        if p.get('stall') == 'before_ping' or p['transport'] == 'ws_dropped':
            pass        # nobody is reading when the PING is emitted
        elif seen[:upto] != expect[:min(upto, len(seen))] or (punctual and len(seen) < len(expect) and not
                                                            (self.send_call is not None and disc)):
            self.flag('ping_instants_wrong', 'PING seen at %r, expected %r (PONGs sent at %r)' % (seen, expect, self.pong_at), trigger=trig)
        # (b) a punctual peer is never dropped before the deadline of the first PING it leaves unanswered
        if len(disc) > 1:
            self.flag('disconnect_count', '%d disconnect events' % len(disc), trigger=trig)
        first_unanswered = None
        if punctual and len(seen) > len(p['delays']):
            first_unanswered = seen[len(p['delays'])]
        if p.get('stall') or p['transport'] == 'ws_dropped':
            first_unanswered = t0 + iv          # emitted at open + interval whether or not the stalled client reads it
        if disc and punctual:
            limit = (first_unanswered + to) if first_unanswered is not None else None
            if limit is None or disc[0][3] < limit - EPS:
                self.flag('live_peer_dropped', 'disconnect %r at %.3f, before the deadline %s of the first unanswered PING (PINGs %r, PONGs %r)'
                          % (disc[0][2], disc[0][3], limit, seen, self.pong_at), trigger=trig)
        # (c) a peer that stopped answering is dropped in bounded time
        last_pong = self.pong_at[-1] if self.pong_at else t0
        if punctual:
            if p['monitor']:
                bound = last_pong + iv + 3 * to
                if not disc:
                    self.flag('dead_peer_not_dropped', 'no disconnect by %.3f (last PONG %.3f, bound %.3f)' % (w.now, last_pong, bound), trigger=trig)
                elif disc[0][3] > bound + EPS:
                    self.flag('dead_peer_dropped_late', 'disconnect at %.3f, bound %.3f' % (disc[0][3], bound), trigger=trig)
                elif disc[0][2] not in TIMED and not (self.send_call and disc[0][2] == 'ping timeout'):
                    self.flag('wrong_reason', 'reason %r for a silent peer' % disc[0][2], trigger=trig)
            elif self.mode == 'mute' and self.tr == 'polling' and self.send_call is None and not p.get('stall'):
                bound = last_pong + 2 * iv + to
                if not disc or disc[0][3] > bound + EPS:
                    self.flag('dead_peer_not_dropped', 'monitoring off, peer keeps polling without PONG: disconnect %r, bound %.3f'
                              % ([(d[2], d[3]) for d in disc], bound), trigger=trig)
            if self.send_call is not None and first_unanswered is not None and self.send_call[0] > first_unanswered + to + EPS:
                if not disc or disc[0][3] > self.send_call[0] + EPS:
                    self.flag('send_after_deadline_did_not_drop', 'send at %.3f after deadline %.3f: disconnect %r'
                              % (self.send_call[0], first_unanswered + to, [(d[2], d[3]) for d in disc]), trigger=trig)
        elif p['monitor'] and not disc:
            self.flag('dead_peer_not_dropped', 'no disconnect by the horizon %.3f although the peer stopped answering' % w.now, trigger=trig)
        # (d) no poll is held longer than interval + timeout; one held that long is answered with an error
        for r in self.polls:
            if not r.done:
                if w.now - r.t_start > iv + to + EPS:
                    self.flag('poll_held_forever', 'poll started %.3f still pending at %.3f' % (r.t_start, w.now), trigger=trig)
            else:
                held = r.t_done - r.t_start
                if held > iv + to + EPS:
                    self.flag('poll_held_too_long', 'poll held %.3f > %.3f' % (held, iv + to), trigger=trig)
                empty = r.status != 200 or not peer.decode_body(r.text())
                if held > iv + to - EPS and empty and not [d for d in disc if d[3] <= r.t_done + EPS]:
                    self.flag('poll_timeout_left_session_open', 'poll held the full %.3f but the session was not closed' % held, trigger=trig)
            if r.exc:
                self.flag('exception_escaped', 'poll raised %s' % r.exc['type'], trigger=trig)
        if self.crowd and p['monitor']:
            bound_c = t0 + iv + 3 * to
            for cs in self.crowd:
                dc = [e for e in w.events if e[0] == 'disconnect' and e[1] == cs]
                if not dc or dc[0][3] > bound_c + EPS:
                    self.flag('dead_peer_dropped_late' if dc else 'dead_peer_not_dropped',
                              'one of %d silent sessions opened together: disconnect %r, bound %.3f (ping_interval + 3 x ping_timeout after OPEN)'
                              % (len(self.crowd) + 1, [(d[2], d[3]) for d in dc], bound_c), trigger=trig + '/crowd')
        if disc and self.sid in w.live_sids():
            self.flag('disconnected_but_alive', 'session still live after its disconnect event', trigger=trig)

    def observation(self):
        w = self.world
        return {'pings': self.pings_seen, 'pongs': self.pong_at,
                'disc': [(e[2], e[3]) for e in w.events if e[0] == 'disconnect' and e[1] == self.sid],
                'scenario': report.dumps(self.params, sort_keys=True)}


def param_list(ctx):
    ps = []
    grid = (GRID[:3] + [GRID[5]]) if ctx.quick else GRID        # the quick grid has one cell with a grace period
    names = ['zero', 'early', 'exact', 'late']
    seqs = [()] + [(a,) for a in names]
    if ctx.quick:
        seqs += [('early', 'early'), ('zero', 'late'), ('early', 'exact')]
    else:
        seqs += list(itertools.product(names, repeat=2)) + [('early', 'zero', 'early'), ('zero', 'zero', 'late')]
    for impl in ('sync', 'async'):
        for g in grid:
            for mon in (True, False):
                ps.append({'impl': impl, 'grid': list(g), 'transport': 'ws_dropped', 'delays': [], 'mode': 'vanish', 'monitor': mon,
                           'send_at': None if mon else g[0] + g[1] + 0.25})
        for g in grid:
            for tr in ('polling', 'websocket'):
                for k in (2, 4):
                    ps.append({'impl': impl, 'grid': list(g), 'transport': tr, 'delays': [], 'mode': 'vanish', 'monitor': True,
                               'send_at': None, 'crowd': k})
        for g in grid:
            iv, to, gr = g
            for tr in ('polling', 'websocket') + (() if ctx.quick else ('ws_only',)):
                for seq in seqs:
                    for mode in ('mute', 'vanish'):
                        for mon in (True, False):
                            sends = [None]
                            if len(seq) <= 1:
                                sends += [iv / 2, iv + to - 0.125, iv + to + 0.125 + (len(seq)) * (iv + 0.125) + iv]
                                if not ctx.quick:
                                    sends += [iv, iv + to - 0.25]
                            for s in sends:
                                ps.append({'impl': impl, 'grid': list(g), 'transport': tr, 'delays': list(seq),
                                           'mode': mode, 'monitor': mon, 'send_at': s})
                            if seq == () and mode == 'mute':
                                ps.append({'impl': impl, 'grid': list(g), 'transport': tr, 'delays': [], 'mode': 'vanish',
                                           'monitor': mon, 'send_at': None, 'client_msg': True})
                            if seq in ((), ('early',)) and mon:
                                # the session under observation is not the first "generation" of this server
                                for pre in ('closed_session', 'rejected_open', 'disconnect_all'):
                                    ps.append({'impl': impl, 'grid': list(g), 'transport': tr, 'delays': list(seq), 'mode': mode,
                                               'monitor': True, 'send_at': None, 'after_idle': pre})
                            if seq == () and mode == 'mute' and tuple(g) in [tuple(x) for x in GRID[:3]]:
                                # the first PONG arrives twice, half an interval apart: every PONG restarts an interval of its own,
                                # a peer that answers each PING it is sent is live
                                for dl in ('zero', 'early'):
                                    for s in (None, 2 * iv + (to - 0.125 if dl == 'early' else 0) + to + 0.125):
                                        if s is None or to + 0.125 < iv / 2:
                                            ps.append({'impl': impl, 'grid': list(g), 'transport': tr, 'delays': [dl] * 4, 'mode': 'mute',
                                                       'monitor': mon, 'send_at': s, 'dup': iv / 2})
                            if tr == 'polling' and seq == () and mode == 'mute' and iv > 0.25:
                                for stall in ('after_ping', 'before_ping'):
                                    for s in (None, iv + to + 0.25):
                                        ps.append({'impl': impl, 'grid': list(g), 'transport': 'polling', 'delays': [], 'mode': mode,
                                                   'monitor': mon, 'send_at': s, 'stall': stall})
                            if tr == 'polling' and len(seq) <= 1 and mode == 'mute' and mon and iv > 0.25:
                                ps.append({'impl': impl, 'grid': list(g), 'transport': 'polling', 'delays': list(seq), 'mode': mode,
                                           'monitor': mon, 'send_at': None, 'straddle': True})
    return ps


def _short(choices):
    t = ''.join(map(str, choices))
    return t if len(t) <= 90 else t[:90] + '...(%d points)' % len(t)


def run(ctx):
    rep = report.Report('C07', 'model_checking')
    bound = 1
    params = param_list(ctx)
    if not ctx.quick:
        # (the long duplicate-PONG scenarios keep the charged cost model)
        # likewise the crowds: with 3 / 5 sessions timing out in the same instant every ordering of their threads is a free choice
        # (200 000 executions for 32 scenarios)
        params = [q if (q.get('dup') or q.get('crowd')) else dict(q, _free_switch=True) for q in params]
    st, viols, samples, gate = core.run_search(Heartbeat, params, bound, ctx.workers, ctx.seed)
    # two deviations (a preempted heartbeat thread plus an early PONG) on a sharp subset: threaded server,
    # punctual peer answering at once, interval > timeout, monitoring on
    deep = [{'impl': impl, 'grid': list(g), 'transport': tr, 'delays': ['zero'], 'mode': mode, 'monitor': True, 'send_at': s_at}
            for impl in (('sync',) if ctx.quick else ('sync', 'async'))
            for g in ((2.0, 0.5, 0), (2.0, 1.0, 0))
            for tr in ('polling', 'websocket') for mode in ('mute',)
            for s_at in (None, g[0] + g[1] + 0.25)]
    deep += [dict(q, trace=['_send_ping']) for q in deep if q['impl'] == 'sync']
    deep = [dict(q, _free_switch=True) for q in deep]
    st2, viols2, samples2, gate2 = core.run_search(Heartbeat, deep, 2, ctx.workers, ctx.seed)
    st.merge(st2)
    viols += viols2
    for v in viols:
        pr = v['params']
        rep.add(report.Violation(
            dict({'impl': pr['impl'], 'kind': v['kind']}, **v['sig']),
            '[%s grid=%r %s delays=%r mode=%s monitor=%s send_at=%r choices=%s] %s'
            % (pr['impl'], pr['grid'], pr['transport'], pr['delays'], pr['mode'], pr['monitor'], pr['send_at'], _short(v['choices']), v['text']),
            {'params': pr, 'choices': v['choices']}, weight=(v['dev'], len(v['choices']))))
    rep.coverage = {
        'states': len(st.outcomes), 'transitions': st.points, 'traces_validated_against_impl': st.executions,
        'samples': samples[:4],
        'evaluations': st.executions, 'distinct_nontrivial': len(st.outcomes),
        'rule': 'grid (interval, timeout, grace) in %r x transport x PONG-delay sequences over {0, timeout-1/8, timeout, timeout+1/8} '
                'ending in silence x silent mode {mute: keeps reading, vanish} x monitoring on/off x an application send placed on the '
                'lattice x {Server, AsyncServer}; the client is a reactive automaton; every same-instant ordering of environment actions '
                'and every schedule with <= %d deviation (environment action before a same-instant library timer, preemption). '
                'states = distinct (scenario, PING instants, PONG instants, disconnect time+reason) digests.' % (grid_repr(ctx), bound),
        'exhaustive': True, 'bound_completed': bound, 'bound_on_sharp_subset': 2, 'caps_hit': st.caps, 'scenarios': len(params) + len(deep),
        'executions_by_deviations': {str(k): v for k, v in sorted(st.by_dev.items())},
        'max_decision_points': st.max_points, 'determinism_gate': gate,
    }
    rep.assumptions = [
        'timed-automaton idealisation: computation takes zero virtual time, all instants are multiples of 1/8 s',
        'the live-peer clause is checked for PONG delays <= timeout - 1/8, the dead-peer clause for silence; at exactly timeout and beyond only the safety clauses (at most one disconnect, polls not held forever) are checked (DESIGN S2)',
        'the threaded WebSocket driver has no read timeout (as simple-websocket in threading mode); with monitoring off a silent WebSocket peer is only dropped at the next send',
    ]
    return rep


def grid_repr(ctx):
    return GRID[:3] if ctx.quick else GRID


def replay(ctx, payload):
    r = report.unbytes(payload['replay'])
    ex = core.execute(Heartbeat, r['params'], r['choices'], want_labels=True)
    for lab in ex.labels:
        print('  ', lab)
    print('observation:', ex.obs)
    for v in ex.violations:
        print('REPLAY VIOLATION:', v)
    return 1 if ex.violations else 0
