"""C04 Client-to-server packets are acted on exactly once, in order, by type.

Exhaustive history enumeration: every POST body that is a sequence of up to 3
packets over a 13-symbol packet alphabet (all 10 type digits, payload kinds,
malformed), and every sequence of up to 3 WebSocket frames over the same
alphabet plus raw binary and empty frames, on polling, WebSocket-only and
upgraded sessions, both servers, both handler dispatch modes. Each history runs
on the real server in a virtual world and is compared with the dispatcher
reference.
"""
import itertools

from vf import report
from vf.explore import digest, parallel
from vf.models import codec
from vf.vworld import base, peer

PKTS = ['0', '1', '2', '3', '4text', '4{"k":[1,"x"]}', 'bAAEC', '5', '6', '7', '8', '9x', 'x', '']
FRAMES = PKTS + [b'\x00\x01\x02', 'b!', '4', b'']
INTERVAL = 1.0
T_BODY = 0.5
_DIGESTS = set()
_STEPS = [0]


def ref_dispatch(pkts, transport):
    """Reference dispatcher. Returns dict:
    events: expected message payloads in order
    end: None | 'client' | 'protocol' ; after_end: packets following the end
    noops, pongs: counts processed ; undecodable: whole unit refused (polling)
    open_after: index after which nothing is required (malformed ws frame)."""
    decoded = []
    for p in pkts:
        try:
            d = codec.ref_decode(p)
        except codec.Undecodable:
            d = None
        decoded.append(d)
    r = {'events': [], 'end': None, 'noops': 0, 'pongs': 0, 'undecodable': False,
         'stopped_at': None, 'lenient': False}
    if transport == 'polling':
        if any(d is None for d in decoded) or len(pkts) > 16:
            r['undecodable'] = True
            return r
    for i, d in enumerate(decoded):
        if d is None:
            r['stopped_at'] = i       # malformed frame on an established socket: nothing required after
            return r
        if d.get('lenient'):
            r['lenient'] = True
            r['stopped_at'] = i
            return r
        t = d['type']
        if t == 4:
            r['events'].append(d['data'])
        elif t == 3:
            r['pongs'] += 1
        elif t == 1:
            r['end'] = 'client'
            r['stopped_at'] = i
            return r
        elif t == 5:
            r['noops'] += 1
        else:
            if transport == 'polling':
                r['end'] = 'protocol'
                r['stopped_at'] = i
                return r
            # ignored on WebSocket
    return r


def same_events(got, want, ordered):
    if ordered:
        return len(got) == len(want) and all(codec.payload_equal(a, b) for a, b in zip(got, want))
    pool = list(want)
    for g in got:
        for k, x in enumerate(pool):
            if codec.payload_equal(g, x):
                del pool[k]
                break
        else:
            return False
    return not pool


def V(out, impl, kind, trigger, text, case):
    out.append(report.Violation({'impl': impl, 'kind': kind, 'trigger': trigger},
                                '[%s] %s  case=%s' % (impl, text, report.dumps(case, sort_keys=True)),
                                {'impl': impl, 'case': case}, weight=(0, len(case['pkts']))))


def poll_loop(w, sid, until, pings, noops, g=None):
    """Client keeps one poll outstanding until virtual time `until`;
    records PING delivery instants and NOOP count."""
    guard = 0
    while True:
        guard += 1
        if guard > 200:
            break
        if g is None or g.done:
            if g is not None:
                if g.status == 200:
                    for t, d in peer.decode_body(g.text()):
                        if t == 2:
                            pings.append(g.t_done)
                        elif t == 6:
                            noops.append(g.t_done)
                else:
                    break
            if sid not in w.live_sids():
                break
            g = peer.poll(w, sid, run=True)
            continue
        d = w.next_deadline()
        if d is None or d > until:
            break
        w.advance_to(d)
        w.run()
    return g


def _beh(case):
    """Application behaviour of a case: by default handlers just record; 'mh' makes every message handler raise."""
    mh = case.get('mh')
    if mh == 'raise':
        return {'behaviour': base.Scripted(message=[('raise', 'message handler failure')])}
    if mh == 'raise_type':
        return {'behaviour': base.Scripted(message=[('raise_type',)])}
    if mh == 'disconnect_self':
        return {'behaviour': base.Scripted(message=[('disconnect', '$sid')])}
    return {}


class _SleepyDisconnect:
    def connect(self, sid, environ):
        return []

    def message(self, sid, data):
        return []

    def disconnect(self, sid, reason):
        return [('sleep', 0.25)]


def run_closing_case(impl, case, out):
    """The session is being ended (its disconnect event has fired, the handler has not returned yet) when the body
    arrives: nothing in it is acted upon."""
    pkts, mode = case['pkts'], case['async_handlers']
    w = peer.make_world(impl, server_kwargs=dict(ping_interval=INTERVAL, ping_timeout=1, async_handlers=mode),
                        behaviour=_SleepyDisconnect())
    try:
        sid = peer.sid_of(peer.open_polling(w))
        peer.poll(w, sid)
        if case['how'] == 'post_close':
            peer.post(w, sid, '1')
        else:
            w.call('disconnect', sid)
            w.run()
        nev = len(w.events)
        r = peer.post(w, sid, '\x1e'.join(pkts))
        w.run_until(w.now + 1.0)
        msgs = [e[2] for e in w.events[nev:] if e[0] == 'message']
        disc = [e for e in w.events if e[0] == 'disconnect']
        if r.exc:
            V(out, impl, 'exception_escaped', 'body_while_closing', 'POST raised %s at %s' % (r.exc['type'], r.exc['site']), case)
        if msgs:
            V(out, impl, 'acted_after_end', 'body_while_closing', 'message events %r from a body that arrived after the disconnect event '
              '(handler still running)' % (msgs,), case)
        if len(disc) != 1:
            V(out, impl, 'disconnect_count', 'body_while_closing', '%d disconnect events' % len(disc), case)
    finally:
        _DIGESTS.add(digest.world_digest(w))
        _STEPS[0] += w.nstep
        w.teardown()


def run_self_disconnect_case(impl, case, out):
    pkts, mode = case['pkts'], case['async_handlers']
    w = peer.make_world(impl, server_kwargs=dict(ping_interval=INTERVAL, ping_timeout=1, async_handlers=mode), **_beh(case))
    try:
        sid = peer.sid_of(peer.open_polling(w))
        if case['poll']:
            peer.poll(w, sid)
        r = peer.post(w, sid, '\x1e'.join(pkts))
        w.run_until(w.now + 1.0)
        ev = [(e[0], e[2]) for e in w.events if e[0] in ('message', 'disconnect')]
        msgs = [e[1] for e in ev if e[0] == 'message']
        after = [e for e in ev[[x[0] for x in ev].index('disconnect') + 1:] if e[0] == 'message'] if ('disconnect' in [x[0] for x in ev]) else []
        if r.exc:
            V(out, impl, 'exception_escaped', 'handler_disconnects_own_session', 'POST raised %s at %s' % (r.exc['type'], r.exc['site']), case)
        if not mode and (after or msgs[:1] != ['first'] or len(msgs) > 1):
            # (with background handlers the later packets may have been dispatched before the first handler ran)
            V(out, impl, 'acted_after_end', 'handler_disconnects_own_session',
              'the handler of the first message disconnected the session; events %r (nothing after the disconnect may be acted upon)' % (ev,), case)
        if len([e for e in ev if e[0] == 'disconnect']) > 1:
            V(out, impl, 'disconnect_count', 'handler_disconnects_own_session', 'events %r' % (ev,), case)
    finally:
        _DIGESTS.add(digest.world_digest(w))
        _STEPS[0] += w.nstep
        w.teardown()


def run_post_case(impl, case, out):
    if case.get('session') == 'closing':
        return run_closing_case(impl, case, out)
    if case.get('session') == 'self_disconnect':
        return run_self_disconnect_case(impl, case, out)
    pkts, mode, with_poll = case['pkts'], case['async_handlers'], case['poll']
    w = peer.make_world(impl, server_kwargs=dict(ping_interval=INTERVAL, ping_timeout=1, async_handlers=mode), **_beh(case))
    try:
        sid = peer.sid_of(peer.open_polling(w))
        pending = peer.poll(w, sid) if with_poll else None
        mid = case.get('session') == 'mid_upgrade'
        if mid:
            # the handshake has got as far as the probe: POSTs keep flowing on polling in this window
            up = peer.ws_upgrade(w, sid)
            w.ws_send(up, '2probe')
            w.run()
        pre = []
        if case.get('prelude'):
            # an earlier, ordinary body of the same session: what it carried is acted on once, not again with the next body
            peer.post(w, sid, '4pre-a\x1e4pre-b')
            pre = ['pre-a', 'pre-b']
        w.run_until(T_BODY)
        body = '\x1e'.join(pkts)
        ref = ref_dispatch(pkts, 'polling')
        if pre:
            ref = dict(ref, events=pre + list(ref['events']))
        if case.get('chunked') and len(pkts) >= 2:
            # the gateway hands the body over in pieces, one of them empty (ASGI allows http.request events without data)
            cut = len(pkts[0].encode('utf-8')) + 1
            raw = body.encode('utf-8')
            r = peer.post(w, sid, body, chunks=[raw[:cut], b'', raw[cut:]])
        else:
            r = peer.post(w, sid, body)
        w.run_until(T_BODY)           # same instant, to quiescence
        msgs = [e[2] for e in w.events if e[0] == 'message']
        disc = [e for e in w.events if e[0] == 'disconnect']
        alive = sid in w.live_sids()
        tr = 'pkt=' + (pkts[ref['stopped_at']] if ref['stopped_at'] is not None and ref['end'] else 'body')
        if not r.done:
            V(out, impl, 'post_unanswered', tr, 'POST not answered at quiescence; parked in %s' % w.blocked_site(r), case)
            return
        if r.exc:
            V(out, impl, 'exception_escaped', tr, 'POST raised %s at %s' % (r.exc['type'], r.exc['site']), case)
            return
        if ref['undecodable']:
            if msgs != pre:
                V(out, impl, 'event_from_refused_body', 'undecodable', 'message events %r from an undecodable / over-limit body' % (msgs,), case)
            return
        if ref['lenient']:
            return
        if ref['end'] is None:
            if not same_events(msgs, ref['events'], ordered=not mode):
                V(out, impl, 'message_events_wrong', 'body', 'message events %r, reference %r' % (msgs, ref['events']), case)
            if r.status != 200:
                V(out, impl, 'valid_body_refused', 'body', 'status %r' % r.status, case)
            if not alive or disc:
                V(out, impl, 'session_ended_unexpectedly', 'body', 'alive=%s disconnects=%r' % (alive, [d[2] for d in disc]), case)
            if mid:
                # polls are on hold during the handshake; the PINGs that fall due meanwhile (the one after OPEN and the one
                # re-armed by each PONG) must come out on the WebSocket once the handshake completes
                w.run_until(T_BODY + INTERVAL + 0.125)
                w.ws_send(up, '5')
                w.run()
                w.run_until(T_BODY + INTERVAL + 0.25)
                npings = peer.ws_frames(up).count('2')
                want = 1 + (1 if ref['pongs'] else 0)
                if npings < want:
                    V(out, impl, 'ping_missing' if not ref['pongs'] else 'pong_did_not_rearm', 'handshake_outlasts_interval',
                      '%d PING frames after the upgrade completed at %.3f, want %d (OPEN at 0, PONG at %.1f, interval %.1f)'
                      % (npings, T_BODY + INTERVAL + 0.125, want, T_BODY, INTERVAL), case)
                return
            # PONG re-arms the heartbeat; UPGRADE is answered with NOOP
            pings, noops = [], []
            poll_loop(w, sid, T_BODY + INTERVAL + 0.25, pings, noops, pending)
            if len(noops) != ref['noops']:
                V(out, impl, 'noop_count', 'pkt=5', '%d NOOP packets delivered for %d UPGRADE packets' % (len(noops), ref['noops']), case)
            if ref['pongs'] and (T_BODY + INTERVAL) not in pings:
                V(out, impl, 'pong_did_not_rearm', 'pkt=3', 'PING instants %r, want one at %.2f' % (pings, T_BODY + INTERVAL), case)
            if INTERVAL not in pings:
                V(out, impl, 'ping_missing', 'heartbeat', 'PING instants %r, want one at %.2f' % (pings, INTERVAL), case)
        else:
            # the unit ends the session; what precedes the ending packet is acted on, nothing after it
            if not same_events(msgs, ref['events'], ordered=not mode):
                extra = len(msgs) > len(ref['events'])
                V(out, impl, 'acted_after_end' if extra else 'message_events_wrong',
                  'pkt_after_close' if ref['end'] == 'client' else 'pkt_after_protocol_error',
                  'message events %r, reference %r (session ended by packet #%d)' % (msgs, ref['events'], ref['stopped_at']), case)
            if alive:
                V(out, impl, 'session_not_ended', tr, 'session still alive after %s' % ('CLOSE' if ref['end'] == 'client' else 'an invalid packet type'), case)
            if len(disc) != 1:
                V(out, impl, 'disconnect_count', tr, '%d disconnect events' % len(disc), case)
            else:
                want = ['client disconnect'] if ref['end'] == 'client' else ['server disconnect', 'transport error']
                if disc[0][2] not in want:
                    V(out, impl, 'disconnect_reason', tr, 'reason %r, want %r' % (disc[0][2], want), case)
            last = ref['stopped_at'] == len(pkts) - 1
            if ref['end'] == 'protocol' and r.status != 400:
                V(out, impl, 'protocol_error_not_refused', tr, 'status %r for an invalid packet type on polling' % r.status, case)
            if ref['end'] == 'client' and last and r.status != 200:
                V(out, impl, 'close_refused', tr, 'status %r for a body ending in CLOSE' % r.status, case)
    finally:
        _DIGESTS.add(digest.world_digest(w))
        _STEPS[0] += w.nstep
        w.teardown()


def run_ws_case(impl, case, out):
    frames, mode, kind = case['pkts'], case['async_handlers'], case['session']
    w = peer.make_world(impl, server_kwargs=dict(ping_interval=INTERVAL, ping_timeout=1, async_handlers=mode), **_beh(case))
    try:
        if kind == 'ws_only':
            s = peer.ws_open(w)
            sid = [e[1] for e in w.events if e[0] == 'connect'][-1]
        else:
            sid = peer.sid_of(peer.open_polling(w))
            s = peer.do_upgrade(w, sid)
        if w.transport(sid) != 'websocket':
            V(out, impl, 'setup_failed', 'setup', 'could not establish a WebSocket session', case)
            return
        w.run_until(T_BODY)
        ref = ref_dispatch(frames, 'websocket')
        base = len(s.frames)
        for f in frames:
            w.ws_send(s, f)
            w.run_until(T_BODY)
        msgs = [e[2] for e in w.events if e[0] == 'message']
        disc = [e for e in w.events if e[0] == 'disconnect']
        alive = sid in w.live_sids()
        malformed = ref['stopped_at'] is not None and ref['end'] is None
        if malformed:
            # only the prefix before the malformed frame is judged
            if not same_events(msgs[:len(ref['events'])], ref['events'], ordered=not mode) or \
                    (len(msgs) < len(ref['events'])):
                V(out, impl, 'message_events_wrong', 'frames', 'message events %r, reference prefix %r' % (msgs, ref['events']), case)
            return
        if not same_events(msgs, ref['events'], ordered=not mode):
            extra = len(msgs) > len(ref['events'])
            V(out, impl, 'acted_after_end' if (extra and ref['end']) else 'message_events_wrong',
              'frame_after_close' if ref['end'] else 'frames',
              'message events %r, reference %r' % (msgs, ref['events']), case)
        sent = [f[2] for f in s.frames[base:]]
        if ref['end'] == 'client':
            if alive:
                V(out, impl, 'session_not_ended', 'pkt=1', 'alive after a CLOSE frame', case)
            if len(disc) != 1 or disc[0][2] != 'client disconnect':
                V(out, impl, 'disconnect_reason', 'pkt=1', 'disconnect events %r' % [d[2] for d in disc], case)
            return
        if not alive or disc:
            V(out, impl, 'session_ended_unexpectedly', 'frames', 'alive=%s disconnects=%r' % (alive, [d[2] for d in disc]), case)
            return
        if sent.count('6') != ref['noops']:
            V(out, impl, 'noop_count', 'pkt=5', 'frames sent %r, want %d NOOP' % (sent, ref['noops']), case)
        # heartbeat: PING at INTERVAL (from the open / upgrade) and, after a PONG, at T_BODY + INTERVAL
        w.run_until(T_BODY + INTERVAL + 0.25)
        ping_times = [f[0] for f in s.frames if f[2] == '2']
        if ref['pongs'] and (T_BODY + INTERVAL) not in ping_times:
            V(out, impl, 'pong_did_not_rearm', 'pkt=3', 'PING instants %r, want one at %.2f' % (ping_times, T_BODY + INTERVAL), case)
        if INTERVAL not in ping_times:
            V(out, impl, 'ping_missing', 'heartbeat', 'PING instants %r, want one at %.2f' % (ping_times, INTERVAL), case)
    finally:
        _DIGESTS.add(digest.world_digest(w))
        _STEPS[0] += w.nstep
        w.teardown()


def run_dead_sid_cases(impl, out):
    """Bodies naming unknown / closed / rejected sessions: no message event."""
    from vf.checks.c12_admission import prepare
    n = 0
    for kind in ('unknown', 'closed', 'rejected'):
        for body in ('4x', '4a\x1e4b', 'bAAEC'):
            w, sids = prepare(impl, 'both')
            try:
                nev = len(w.events)
                r = peer.post(w, sids[kind], body)
                w.run_until(w.now + 3)
                n += 1
                msgs = [e for e in w.events[nev:] if e[0] == 'message']
                case = {'pkts': [body], 'sid': kind}
                if msgs:
                    V(out, impl, 'event_from_refused_body', 'sid=' + kind, 'message events %r for a %s session' % (msgs, kind), case)
                if r.exc:
                    V(out, impl, 'exception_escaped', 'sid=' + kind, 'POST raised %s' % r.exc['type'], case)
            finally:
                w.teardown()
    return n


def _work(chunk):
    out = []
    n = 0
    _DIGESTS.clear()
    _STEPS[0] = 0
    for what, impl, case in chunk:
        try:
            if what == 'post':
                run_post_case(impl, case, out)
            elif what == 'ws':
                run_ws_case(impl, case, out)
            else:
                n += run_dead_sid_cases(impl, out) - 1
        except report.Livelock as e:
            out.append(report.livelock_violation(impl, e, {'impl': impl, 'case': case}))
        n += 1
    return [v.to_json() for v in out[:400]], n, len(out), sorted(_DIGESTS), _STEPS[0]


def run(ctx):
    rep = report.Report('C04', 'model_checking')
    depth = 2 if ctx.quick else 3
    jobs = []
    bodies = []
    for k in range(1, depth + 1):
        bodies += [list(t) for t in itertools.product(PKTS, repeat=k)]
    # depth-3 slice in the quick tier: every body whose first packet is seed-chosen
    if ctx.quick:
        first = PKTS[ctx.seed % len(PKTS)]
        bodies += [[first] + list(t) for t in itertools.product(PKTS, repeat=2)]
    bodies += [['4m%d' % i for i in range(n)] for n in (16, 17, 18)]
    fseqs = []
    for k in range(1, depth + 1):
        fseqs += [list(t) for t in itertools.product(FRAMES, repeat=k)]
    if ctx.quick:
        first = FRAMES[ctx.seed % len(FRAMES)]
        fseqs += [[first] + list(t) for t in itertools.product(FRAMES, repeat=2)]
    for impl in ('sync', 'async'):
        for mode in (False, True):
            for b in bodies:
                for poll in ((True,) if ctx.quick else (True, False)):
                    jobs.append(('post', impl, {'pkts': b, 'async_handlers': mode, 'poll': poll}))
                if len(b) == 2 and impl == 'async':
                    jobs.append(('post', impl, {'pkts': b, 'async_handlers': mode, 'poll': True, 'chunked': True}))
                if len(b) <= 2:
                    jobs.append(('post', impl, {'pkts': b, 'async_handlers': mode, 'poll': True, 'prelude': True}))
                    jobs.append(('post', impl, {'pkts': b, 'async_handlers': mode, 'poll': True, 'session': 'mid_upgrade'}))
                    for how in ('post_close', 'api_disconnect'):
                        jobs.append(('post', impl, {'pkts': b, 'async_handlers': mode, 'poll': True, 'session': 'closing', 'how': how}))
            for f in fseqs:
                for sk in ('ws_only', 'upgraded'):
                    jobs.append(('ws', impl, {'pkts': f, 'async_handlers': mode, 'session': sk}))
            # the handler of the first message disconnects its own session: nothing that follows in the body is acted upon
            for b in (['4first', '4second'], ['4first', '4second', '4third'], ['4first', '3', '4second']):
                for poll in (True, False):
                    jobs.append(('post', impl, {'pkts': b, 'async_handlers': mode, 'poll': poll, 'mh': 'disconnect_self', 'session': 'self_disconnect'}))
            # every message handler call raises (an ordinary exception / a TypeError): each packet is still acted on once, in order
            for mh in ('raise', 'raise_type'):
                for b in (['4text'], ['4text', '4text'], ['4text', '4{"k":[1,"x"]}', 'bAAEC'], ['4text', '3', '4text'], ['4text', '5', '4text'],
                          ['4text', '1'], ['4text', '4text', '7']):
                    jobs.append(('post', impl, {'pkts': b, 'async_handlers': mode, 'poll': True, 'mh': mh}))
                    jobs.append(('ws', impl, {'pkts': b, 'async_handlers': mode, 'session': 'ws_only', 'mh': mh}))
                    jobs.append(('ws', impl, {'pkts': b, 'async_handlers': mode, 'session': 'upgraded', 'mh': mh}))
        jobs.append(('dead', impl, None))
    res = parallel.pmap_chunks(_work, parallel.split(jobs, ctx.workers * 6), ctx.workers, ctx.seed, maxtasks=6)
    n = 0
    nv = 0
    digs = set()
    steps = 0
    for vs, k, m, dg, stp in res:
        n += k
        nv += m
        digs |= set(dg)
        steps += stp
        for v in vs:
            rep.add(report.Violation.from_json(v))
    rep.coverage = {
        'states': len(digs), 'transitions': steps, 'traces_validated_against_impl': n,
        'samples': [{'post_body': ['4text', '1', '4text']}, {'ws_frames': ['3', '7', {'__bytes__': '000102'}], 'session': 'upgraded'},
                    {'post_body': ['9x'], 'async_handlers': True}],
        'evaluations': n, 'distinct_nontrivial': n,
        'rule': 'every POST body of <= %d packets over %r (plus the complete depth-3 slice with a seed-chosen first packet at the '
                'quick tier, and 16/17/18-packet bodies) and every sequence of <= %d frames over the same alphabet plus raw '
                'binary, empty, invalid base64 and bare "4"; sessions: polling (pending poll%s), polling in the middle of an upgrade handshake, polling in the middle of its own close (disconnect handler asleep), WebSocket-only, upgraded; '
                'async_handlers in {False, True}; a few bodies / frame sequences again with message handlers that raise (an ordinary exception, a TypeError); Server and AsyncServer. states = distinct canonical digests of the final world '
                'state over all histories; transitions = scheduler steps executed on the real servers; traces = histories.'
                % (depth, PKTS, depth, '' if ctx.quick else ' on/off'),
        'exhaustive': True, 'bound_completed': depth, 'violating_cases_total': nv,
    }
    rep.assumptions = [
        'default schedule only (environment speaks at quiescence); interleavings belong to C03/C05',
        'status of a body in which packets follow a CLOSE is open (200 or 400); a protocol error may be reported as server disconnect or transport error',
        'after a malformed frame on an established WebSocket nothing further is required of later frames (DESIGN S4)',
        'invalid base64 is exercised for no-crash only',
    ]
    return rep


def replay(ctx, payload):
    r = report.unbytes(payload['replay'])
    out = []
    c = r['case']
    if 'session' in c and c['session'] != 'mid_upgrade':
        run_ws_case(r['impl'], c, out)
    elif 'sid' in c:
        run_dead_sid_cases(r['impl'], out)
    else:
        run_post_case(r['impl'], c, out)
    for v in out:
        print('REPLAY VIOLATION:', v.text)
    print('replayed; violations=%d' % len(out))
    return 1 if out else 0
