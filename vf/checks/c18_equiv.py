"""C18 Threaded and asyncio servers are observationally equivalent.

Lock-step differential explicit-state search: the same environment history is
applied, one action at a time, to a threaded world and an asyncio world under
the deterministic default schedule and a shared virtual clock, each run to
quiescence; breadth-first over the union action alphabet of C03-C07 and C12
with de-duplication on the pair of state digests. After every action the
listed observables are compared.
"""
import collections

from vf import report
from vf.explore import digest, parallel
from vf.vworld import peer
from vf.checks.c12_admission import RejectOnHeader

ACTIONS = ['open', 'open_rej', 'ws_open', 'poll', 'post_msg', 'post_two', 'post_close', 'post_bad7', 'post_bad0',
           'post_garbage', 'post_17', 'ws_connect', 'ws_probe', 'ws_upgrade', 'ws_badframe', 'ws_msg',
           'ws_closeframe', 'ws_peer_close', 'send', 'send_bin', 'disconnect_sid', 'tick',
           'get_unknown', 'get_wrong_transport', 'put', 'ws_drop', 'ws_fault', 'disconnect_all']
# the silence pass: histories over a smaller alphabet, each followed by every client falling silent for the heartbeat bound
SILENT_ACTIONS = ['open', 'ws_open', 'post_close', 'poll', 'tick', 'wait41', 'disconnect_sid', 'ws_peer_close']     # wait41: 2 x ping_timeout + 1 s pass
SILENT_ACTIONS_THOROUGH = SILENT_ACTIONS + ['wait20', 'open_rej', 'ws_connect', 'ws_probe', 'ws_upgrade', 'send', 'post_msg']
SILENCE = 25 + 3 * 20 + 1.0
TIMEOUTISH = {'ping timeout', 'transport close', 'transport error'}


class SleepyApp(RejectOnHeader):
    """Handlers that take virtual time: the disconnect handler sleeps 0.25 s, the message handler 0.125 s."""
    def disconnect(self, sid, reason):
        return [('sleep', 0.25)]

    def message(self, sid, data):
        return [('sleep', 0.125)]


VARIANT = ['plain']
ALPHABET = [None]


class Side:
    """One world plus the client-side bookkeeping for it."""
    def __init__(self, impl):
        self.w = peer.make_world(impl, server_kwargs=dict(ping_interval=25, ping_timeout=20, async_handlers=False),
                                 behaviour=SleepyApp() if VARIANT[0] == 'sleepy' else RejectOnHeader())
        self.impl = impl
        self.sids = []
        self.ws = {}          # sid -> ws handle
        self.hs = {}          # sid -> handshake stage
        self.admission = []   # status per non-poll request, in issue order
        self.polls = {}       # sid -> [req]

    def sid(self):
        for s in self.sids:
            if s in self.w.live_sids():
                return s
        return self.sids[0] if self.sids else None

    def apply(self, a):
        w = self.w
        sid = self.sid()
        if a == 'open':
            if len(self.sids) >= 2:
                return False
            r = peer.open_polling(w)
            s = peer.sid_of(r)
            self.admission.append(r.status)
            if s:
                self.sids.append(s)
                self.polls[s] = []
            return True
        if a == 'open_rej':
            r = w.http('GET', peer.BASEQ, headers={'X-Reject': '1'})
            w.run()
            self.admission.append(r.status)
            return True
        if a == 'ws_open':
            if len(self.sids) >= 2:
                return False
            n = len([e for e in w.events if e[0] == 'connect'])
            h = peer.ws_open(w)
            ev = [e for e in w.events if e[0] == 'connect']
            if len(ev) > n:
                s = ev[-1][1]
                self.sids.append(s)
                self.polls[s] = []
                self.ws[s] = h
                self.hs[s] = 'open'
            return True
        if a == 'tick':
            return True      # handled by the caller (shared clock)
        if a == 'get_unknown':
            r = w.http('GET', peer.BASEQ + '&sid=nosuchsid')
            w.run()
            self.admission.append(r.status)
            return True
        if a == 'disconnect_all':
            # the application disconnects everybody; only while at most one session has not been ended by its client (with two
            # the threaded disconnect() stops at the first whose queue nobody drains - known finding KF-C15 - and the servers differ)
            if getattr(self, 'disc_all', False) or len([x for x in self.sids if x not in getattr(self, 'ended', set())]) > 1:
                return False
            if VARIANT[0] == 'sleepy':
                return False      # (a disconnect() suspended in a slow handler overlaps later actions: schedule-level, not history-level)
            self.disc_all = True
            w.call('disconnect')
            w.run()
            return True
        if sid is None:
            return False
        if a in ('post_close', 'disconnect_sid') or (a in ('ws_closeframe', 'ws_peer_close') and self.hs.get(sid) == 'open'):
            # (closing a socket that is still in its upgrade handshake does not end the session)
            self.ended = getattr(self, 'ended', set()) | {sid}
        if a == 'poll':
            if len(self.polls[sid]) >= 3:
                return False      # enabledness must not depend on what the server did
            self.polls[sid].append(peer.poll(w, sid))
            return True
        bodies = {'post_msg': '4hello', 'post_two': '4a\x1e4{"b":1}', 'post_close': '1', 'post_bad7': '7',
                  'post_bad0': '4x\x1e0', 'post_garbage': 'x', 'post_17': '\x1e'.join(['4m'] * 17)}
        if a in bodies:
            r = peer.post(w, sid, bodies[a])
            self.admission.append(r.status if r.done else 'pending')
            return True
        if a == 'get_wrong_transport':
            r = w.http('GET', 'EIO=4&transport=websocket&sid=' + sid)
            w.run()
            self.admission.append(r.status if r.done else 'pending')
            return True
        if a == 'put':
            r = w.http('PUT', peer.BASEQ + '&sid=' + sid)
            w.run()
            self.admission.append(r.status)
            return True
        if a == 'send':
            w.call('send', sid, 'from-app')
            w.run()
            return True
        if a == 'send_bin':
            w.call('send', sid, b'\x00\xff')
            w.run()
            return True
        if a == 'disconnect_sid':
            w.call('disconnect', sid)
            w.run()
            return True
        if a == 'ws_drop':
            # an upgrade request whose socket is gone before the WebSocket handshake can be answered
            if getattr(self, 'dropped', False) or sid in self.ws:
                return False
            self.dropped = True
            w.ws(peer.WSQ + '&sid=' + sid, fail_accept=True)
            w.run()
            return True
        h = self.ws.get(sid)
        if a == 'ws_connect':
            if h is not None:
                return False
            self.ws[sid] = peer.ws_upgrade(w, sid)
            self.hs[sid] = 'connected'
            return True
        if h is None or h.client_closed:
            return False
        if a == 'ws_fault':
            # the next write of the server on this socket fails once (connection reset)
            if getattr(self, 'faulted', False) or self.hs.get(sid) != 'open':
                return False
            self.faulted = True
            h.fail_send_at = getattr(h, 'nsend', 0)
            return True
        st = self.hs.get(sid)
        if a == 'ws_probe':
            if st != 'connected':
                return False
            w.ws_send(h, '2probe')
            self.hs[sid] = 'probed'
        elif a == 'ws_upgrade':
            if st != 'probed':
                return False
            w.ws_send(h, '5')
            self.hs[sid] = 'open'
        elif a == 'ws_badframe':
            if st not in ('connected', 'probed'):
                return False
            w.ws_send(h, '4x')
            self.hs[sid] = 'failed'
        elif a == 'ws_msg':
            if st != 'open':
                return False
            w.ws_send(h, '4frame')
        elif a == 'ws_closeframe':
            if st != 'open':
                return False
            w.ws_send(h, '1')
        elif a == 'ws_peer_close':
            w.ws_close(h)
        else:
            raise AssertionError(a)
        w.run()
        return True

    def observables(self):
        w = self.w
        ev = {}
        for e in w.events:
            reason = e[2]
            if e[0] == 'disconnect' and reason in TIMEOUTISH:
                reason = 'timeout-class'
            ev.setdefault(e[1], []).append((e[0], reason))
        delivered = {}
        for sid in self.sids:
            got = []
            for r in self.polls.get(sid, []):
                if r.done and r.status == 200:
                    got += [('polling', d) for t, d in peer.decode_body(r.text()) if t == 4]
            h = self.ws.get(sid)
            if h is not None:
                for f in h.frames:
                    t, d = peer.decode_frame(f[2])
                    if t == 4:
                        got.append(('websocket', d))
            delivered[sid] = got
        return {'events': ev, 'delivered': delivered, 'admission': list(self.admission),
                'alive': sorted(w.live_sids()), 'transport': {s: w.transport(s) for s in sorted(w.live_sids())}}


def build(hist):
    a, b = Side('sync'), Side('async')
    try:
        for act in hist:
            if act == 'tick':
                da, db = a.w.next_deadline(), b.w.next_deadline()
                ds = [d for d in (da, db) if d is not None]
                if not ds:
                    a.w.teardown()
                    b.w.teardown()
                    return None, None, 'disabled'
                t = min(ds)
                if VARIANT[0] == 'sleepy' and (a.w.sched.due_count(t) > 1 or b.w.loop.due_count(t) > 1):
                    # two suspended handlers wake at the same instant: which continues first is a scheduling choice inside
                    # each server, not an observable difference between them - the history is not extended or compared
                    a.w.teardown()
                    b.w.teardown()
                    return None, None, 'disabled'
                for s in (a, b):
                    s.w.advance_to(t)
                    s.w.run()
                continue
            if act in ('wait41', 'wait20'):
                for s in (a, b):
                    s.w.run_until(s.w.now + float(act[4:]))
                    s.w.run()
                continue
            ra, rb = a.apply(act), b.apply(act)
            if ra != rb:
                return a, b, 'enabledness differs for %s: sync=%s async=%s' % (act, ra, rb)
            if not ra:
                a.w.teardown()
                b.w.teardown()
                return None, None, 'disabled'
        return a, b, None
    except Exception:
        a.w.teardown()
        b.w.teardown()
        raise


def compare_after_silence(a, b):
    """Every client has been silent for ping_interval + 3 x ping_timeout: both servers have detected it (no limbo)."""
    for s in (a, b):
        s.w.run_until(s.w.now + SILENCE)
        s.w.run()
    oa, ob = a.observables(), b.observables()
    diffs = []
    for k in ('events', 'alive'):
        if report.dumps(oa[k], sort_keys=True) != report.dumps(ob[k], sort_keys=True):
            diffs.append((k, oa[k], ob[k]))
    if not diffs and (oa['alive'] or ob['alive']):
        diffs.append(('alive', oa['alive'], ob['alive']))
    return diffs


def in_limbo(a, b, hist=()):
    """One server has dropped a session for silence and the other has not done so yet: what a later action on that session
    does is not comparable (each is within the heartbeat bound) - such a history is compared but not extended."""
    if not any(x in ('tick', 'wait41', 'wait20') for x in hist):
        return False         # no time has passed: nobody can have been dropped for silence
    oa, ob = a.observables(), b.observables()
    ta = {sid for sid, evs in oa['events'].items() if ('disconnect', 'timeout-class') in evs}
    tb = {sid for sid, evs in ob['events'].items() if ('disconnect', 'timeout-class') in evs}
    return bool(ta ^ tb)


def compare(a, b):
    oa, ob = a.observables(), b.observables()
    # ends caused by silence are detected by both servers within the heartbeat bound, not at the same instant: once one
    # of them has dropped a session for a timeout-class reason that session leaves the comparison on both sides
    limbo = {sid for o in (oa, ob) for sid, evs in o['events'].items() if ('disconnect', 'timeout-class') in evs}
    for o in (oa, ob):
        for sid in limbo:
            if sid in o['events']:
                o['events'][sid] = [e for e in o['events'][sid] if e != ('disconnect', 'timeout-class')]
            o['transport'].pop(sid, None)
        o['alive'] = [s_ for s_ in o['alive'] if s_ not in limbo]
    diffs = []
    for k in ('events', 'delivered', 'admission', 'alive', 'transport'):
        if report.dumps(oa[k], sort_keys=True) != report.dumps(ob[k], sort_keys=True):
            diffs.append((k, oa[k], ob[k]))
    return diffs


def explore(depth, first_actions):
    """BFS from the histories starting with one of first_actions."""
    seen = set()
    frontier = collections.deque([(f,) for f in first_actions])
    viols = []
    states = 0
    transitions = 0
    while frontier:
        hist = frontier.popleft()
        a, b, err = build(hist)
        if a is None:
            continue
        transitions += 1
        try:
            if err:
                viols.append(('enabledness', 'after %r: %s' % (list(hist), err), hist))
                continue
            diffs = compare(a, b)
            if diffs:
                k, va, vb = diffs[0]
                viols.append((k, 'after %r: %s differs: sync=%r async=%r' % (list(hist), k, va, vb), hist))
                continue       # do not extend a diverged history
            key = (digest.world_digest(a.w), digest.world_digest(b.w), tuple(sorted(a.hs.items())))
            if key in seen:
                continue
            seen.add(key)
            states += 1
            if len(hist) < depth and not in_limbo(a, b, hist):
                for act in ACTIONS:
                    frontier.append(hist + (act,))
        finally:
            a.w.teardown()
            b.w.teardown()
    return states, transitions, viols


def _work(chunk):
    out = []
    for depth, firsts in chunk:
        try:
            out.append(explore(depth, firsts))
        except report.Livelock as e:
            out.append((0, 0, [('livelock', str(e), tuple(firsts))]))
    return out


def run(ctx):
    rep = report.Report('C18', 'model_checking')
    depth = 4 if ctx.quick else 5
    # partition by the first two actions
    firsts = []
    for f in ('open', 'ws_open', 'open_rej', 'get_unknown'):
        firsts.append(f)
    seeds2 = [(f, g) for f in ('open', 'ws_open') for g in ACTIONS]
    chunks = [[(depth, [f])] for f in ('open_rej', 'get_unknown')]
    # expand two levels by hand so that the work spreads over the cores
    jobs = []
    for f, g in seeds2:
        jobs.append((f, g))
    # second pass with handlers that take virtual time (a suspended handler is where the two servers could differ)
    sleepy = [[(depth - 1, ('@sleepy',) + j)] for j in jobs]
    sil = SILENT_ACTIONS if ctx.quick else SILENT_ACTIONS_THOROUGH
    silence = [[(4, ('@silence' if ctx.quick else '@silence+', f, g))] for f in ('open', 'ws_open') for g in sil]
    res = parallel.pmap_chunks(_work2, [[(depth, j)] for j in jobs] + [[(depth, (f,))] for f in ('open_rej', 'get_unknown', 'open', 'ws_open')] + sleepy + silence,
                               ctx.workers, ctx.seed, maxtasks=2)
    states = transitions = 0
    nv = 0
    for r in res:
        for st, tr, viols in r:
            states += st
            transitions += tr
            nv += len(viols)
            for k, text, hist in viols[:200]:
                rep.add(report.Violation(
                    {'impl': 'both', 'kind': 'divergence:' + k, 'trigger': hist[-1] if hist else ''},
                    text[:700], {'history': list(hist), 'variant': 'sleepy' if text.startswith('[sleepy]') else 'silence' if text.startswith('[silence]') else 'plain'}, weight=(len(hist), 0)))
    rep.coverage = {
        'states': states, 'transitions': transitions, 'traces_validated_against_impl': transitions * 2,
        'samples': [{'history': ['open', 'poll', 'ws_connect', 'ws_probe']}, {'history': ['ws_open', 'ws_msg', 'disconnect_sid']},
                    {'history': ['open', 'post_bad7', 'poll']}],
        'evaluations': transitions, 'distinct_nontrivial': states,
        'rule': 'breadth-first search over %d actions %r to depth %d, the same history applied in lock step to Server and AsyncServer '
                'under the default schedule with a shared clock; de-duplication on the pair of canonical digests (done per work '
                'partition: histories are partitioned by their first two actions); a diverged history is reported and not extended, nor is one in which exactly one of the two servers has already dropped a silent session (each is within its bound); a second '
                'pass one level shallower runs with handlers that take virtual time (disconnect 0.25 s, message 0.125 s; histories in which two suspended handlers wake at the same instant are pruned - their order is a scheduling choice inside each server); a third pass (%d actions %r, depth 4) lets every client fall silent for ping_interval + 3 x ping_timeout after each history and demands that both servers have dropped every session, with the same events. '
                'states = distinct digest pairs; transitions = histories executed on both implementations.' % (len(ACTIONS), ACTIONS, depth, len(sil), sil),
        'exhaustive': True, 'bound_completed': depth, 'divergences_total': nv,
    }
    rep.assumptions = [
        'ping_interval=25, ping_timeout=20: ends caused by silence do not occur inside the bounded histories (C07 bounds them for each server separately); timeout-class reasons are compared as one class',
        'admission is compared for non-poll requests at issue time; polls are compared through what they deliver',
        'default schedule of the threaded world (current thread keeps running; a spawned thread runs when its spawner blocks) is the analogue of asyncio FIFO (DESIGN S4)',
    ]
    return rep


def _work2(chunk):
    out = []
    for depth, prefix in chunk:
        if isinstance(prefix, tuple) and prefix and prefix[0] == '@sleepy':
            VARIANT[0] = 'sleepy'
            prefix = prefix[1:]
        elif isinstance(prefix, tuple) and prefix and prefix[0] in ('@silence', '@silence+'):
            VARIANT[0] = 'silence'
            ALPHABET[0] = SILENT_ACTIONS if prefix[0] == '@silence' else SILENT_ACTIONS_THOROUGH
            prefix = prefix[1:]
        else:
            VARIANT[0] = 'plain'
        try:
            out.append(explore_from(depth, tuple(prefix)))
        except report.Livelock as e:
            out.append((0, 0, [('livelock', str(e), tuple(prefix))]))
    return out


def explore_from(depth, prefix):
    """BFS below one prefix (the prefix itself is executed and compared too,
    but only extended when it has the full partition length or is terminal)."""
    seen = set()
    frontier = collections.deque([prefix])
    viols = []
    states = transitions = 0
    top = len(prefix) == 1 and prefix[0] in ('open', 'ws_open')
    while frontier:
        hist = frontier.popleft()
        a, b, err = build(hist)
        if a is None:
            continue
        transitions += 1
        try:
            if err:
                viols.append(('enabledness', 'after %r: %s' % (list(hist), err), hist))
                continue
            diffs = compare(a, b)
            if diffs:
                k, va, vb = diffs[0]
                viols.append((k, '[%s] after %r: %s differs: sync=%r async=%r' % (VARIANT[0], list(hist), k, va, vb), hist))
                continue
            key = (digest.world_digest(a.w), digest.world_digest(b.w), tuple(sorted(a.hs.items())))
            if key in seen:
                continue
            seen.add(key)
            states += 1
            limbo = in_limbo(a, b, hist)
            if VARIANT[0] == 'silence':
                diffs = compare_after_silence(a, b)
                if diffs:
                    k, va, vb = diffs[0]
                    viols.append(('silence:' + k, '[silence] after %r and %.0f s of silence from every client: %s: sync=%r async=%r'
                                  % (list(hist), SILENCE, k, va, vb), hist))
                    continue
            if top:
                continue      # its children are separate partitions
            if limbo:
                continue
            if len(hist) < depth:
                for act in (ALPHABET[0] if VARIANT[0] == 'silence' else ACTIONS):
                    frontier.append(hist + (act,))
        finally:
            a.w.teardown()
            b.w.teardown()
    return states, transitions, viols


def replay(ctx, payload):
    hist = tuple(payload['replay']['history'])
    VARIANT[0] = payload['replay'].get('variant', 'plain')
    a, b, err = build(hist)
    if a is None:
        print('history not enabled')
        return 0
    try:
        print('enabledness:', err)
        for k, va, vb in compare(a, b):
            print('DIVERGENCE in %s:\n  sync : %r\n  async: %r' % (k, va, vb))
            return 1
        if VARIANT[0] == 'silence':
            for k, va, vb in compare_after_silence(a, b):
                print('DIVERGENCE after silence in %s:\n  sync : %r\n  async: %r' % (k, va, vb))
                return 1
        print('no divergence')
        return 1 if err else 0
    finally:
        a.w.teardown()
        b.w.teardown()
