"""C15 Every request and API call completes with a well-formed gateway response.

Explicit-state breadth-first search over session histories (open, pending
poll, posts, upgrade steps, application send, clock ticks, vanishing client)
with state de-duplication by canonical digest; in every reached state a menu
of probe requests (reduced admission product + malformed bodies) and every
application-facing call is issued on a fresh replay of that state, the world
is run to a virtual-time horizon, and the gateway validators / completion
monitor are evaluated.
"""
import collections

from vf import report
from vf.explore import digest, parallel
from vf.vworld import peer

INTERVAL = 1.0
TIMEOUT = 1.0
HORIZON = 8.0
ACTIONS = ['open', 'poll', 'post_msg', 'post_close', 'ws_connect', 'ws_probe', 'ws_upgrade',
           'ws_close', 'send', 'tick', 'vanish', 'send16']
# a second root for the search: the state right after a completed upgrade (4 actions deep), explored 2 (thorough 3) further
UPGRADED = ('open', 'ws_connect', 'ws_probe', 'ws_upgrade')


class St:
    """Client-side bookkeeping while a history is replayed."""
    def __init__(self):
        self.sids = []
        self.ws = None
        self.vanished = False


OVERLAP_FIRSTS = ['~post_bad', '~post_oversize', '~post_close', '~disconnect']


class _SleepyDisconnect:
    """Application whose disconnect handler takes 0.25 s of virtual time (the overlap pass)."""
    def connect(self, sid, environ):
        return []

    def message(self, sid, data):
        return []

    def disconnect(self, sid, reason):
        return [('sleep', 0.25)]


class _FarewellApp(_SleepyDisconnect):
    """Application whose disconnect handler yields once and then says goodbye to the session that is ending."""
    def disconnect(self, sid, reason):
        return [('yield',), ('send', sid, 'farewell')]


class _HostileApp(_SleepyDisconnect):
    """Application whose handlers fail: the message handler raises, the disconnect handler raises a TypeError."""
    def message(self, sid, data):
        return [('raise', 'message handler failure')]

    def disconnect(self, sid, reason):
        return [('raise_type',)]


class _LegacyRaiser(_SleepyDisconnect):
    """Installed as a one-argument (legacy) disconnect handler that raises."""
    def disconnect(self, sid, reason=None):
        return [('raise', 'legacy disconnect handler failure')]


class _RelayApp(_SleepyDisconnect):
    """A relay: every message received is sent back to the session it came from (a chat room of one)."""
    def message(self, sid, data):
        return [('send', sid, data)]

    def disconnect(self, sid, reason):
        return []


def apply_action(w, st, a):
    """Returns False when the action is not enabled in this state."""
    sid = st.sids[0] if st.sids else None
    if a in ('!farewell', '!hostile', '!legacy', '!relay'):
        return True
    if a == 'post_surrogate':
        # a MESSAGE whose text is the JSON string "\ud83d" (seven ASCII characters on the wire): it decodes to a Python str
        # holding a lone surrogate, which has no UTF-8 form
        if sid is None:
            return False
        peer.post(w, sid, '4ok-before\x1e4"\\ud83d"')
        return True
    if a == 'post_surrogate_json':
        # the same character inside a JSON object: the relayed dict is serialised with escapes and has a UTF-8 form
        if sid is None:
            return False
        peer.post(w, sid, '4ok-before\x1e4{"u":"\\ud83d"}')
        return True          # marker: the world was built with the farewell application
    if a.startswith('~'):
        # something that ends the session is under way and its disconnect handler is asleep when the probe arrives
        if sid is None:
            return False
        if a == '~post_bad':
            peer.post(w, sid, '7', run=False)
        elif a == '~post_oversize':
            peer.post(w, sid, '4' + 'a' * 4100, run=False)
        elif a == '~post_close':
            peer.post(w, sid, '1', run=False)
        else:
            w.call('disconnect', sid)
        w.run()
        return True
    if a == 'open':
        if len(st.sids) >= 2 or st.vanished:
            return False
        r = peer.open_polling(w)
        s = peer.sid_of(r)
        if s is None:
            return False
        st.sids.append(s)
        return True
    if a == 'tick':
        return w.tick()
    if sid is None:
        return False
    if a == 'send':
        w.call('send', sid, 'from-app')
        w.run()
        return True
    if a == 'send16':
        # one application task queues a full batch (the per-payload packet limit) back to back
        if getattr(st, 'burst', False):
            return False
        st.burst = True
        w.call_seq('send', [(sid, 'b%d' % i) for i in range(16)])
        w.run()
        return True
    if st.vanished:
        return False
    if a == 'poll':
        if any(not r.done and r.method == 'GET' for r in w.reqs):
            return False
        peer.poll(w, sid)
    elif a == 'post_msg':
        peer.post(w, sid, '4hello')
    elif a == 'post_close':
        peer.post(w, sid, '1')
    elif a == 'ws_connect':
        if st.ws is not None:
            return False
        st.ws = peer.ws_upgrade(w, sid)
    elif a == 'ws_probe':
        if st.ws is None or st.ws.done or getattr(st, 'probed', False):
            return False
        st.probed = True
        w.ws_send(st.ws, '2probe')
        w.run()
    elif a == 'ws_upgrade':
        if st.ws is None or st.ws.done or not getattr(st, 'probed', False) or getattr(st, 'upg', False):
            return False
        st.upg = True
        w.ws_send(st.ws, '5')
        w.run()
    elif a == 'ws_close':
        if st.ws is None or st.ws.done or st.ws.client_closed:
            return False
        w.ws_close(st.ws)
        w.run()
    elif a == 'vanish':
        st.vanished = True
        if st.ws is not None:
            w.ws_vanish(st.ws)
    else:
        raise AssertionError(a)
    return True


def build(impl, hist):
    extra = {'behaviour': _SleepyDisconnect()} if any(a.startswith('~') for a in hist) else {}
    if hist[:1] == ('!farewell',) or (hist and hist[0] == '!farewell'):
        extra = {'behaviour': _FarewellApp()}
    if hist and hist[0] == '!relay':
        extra = {'behaviour': _RelayApp()}
    if hist and hist[0] == '!hostile':
        extra = {'behaviour': _HostileApp()}
    if hist and hist[0] == '!legacy':
        extra = {'behaviour': _LegacyRaiser(), 'legacy_disconnect': True}
    w = peer.make_world(impl, server_kwargs=dict(ping_interval=INTERVAL, ping_timeout=TIMEOUT,
                                                 max_http_buffer_size=4000, compression_threshold=8), **extra)
    st = St()
    for a in hist:
        if not apply_action(w, st, a):
            w.teardown()
            return None, None
    return w, st


def state_key(w, st):
    d = w.next_deadline()
    extra = {'next': None if d is None else d - w.now, 'ws': None if st.ws is None else
             (st.ws.accepted, st.ws.done, getattr(st, 'probed', False), getattr(st, 'upg', False)),
             'vanished': st.vanished, 'nsid': len(st.sids)}
    return digest.world_digest(w, extra)


# ------------------------------------------------------------------ probes

def probes():
    P = []
    q = peer.BASEQ
    for name, method, query, kw in [
        ('poll', 'GET', q + '&sid=$', {}),
        ('poll_jsonp', 'GET', q + '&sid=$&j=1', {}),
        ('get_ws_nohdr', 'GET', 'EIO=4&transport=websocket&sid=$', {}),
        ('get_upgrade_only', 'GET', 'EIO=4&transport=websocket&sid=$', {'headers': {'Upgrade': 'websocket'}}),
        ('get_poll_upgrade_only', 'GET', q + '&sid=$', {'headers': {'Upgrade': 'websocket'}}),
        ('get_conn_only', 'GET', q + '&sid=$', {'headers': {'Connection': 'Upgrade'}}),
        ('open', 'GET', q, {}),
        # the compressed response paths (threshold 8 bytes in this world)
        ('poll_gzip', 'GET', q + '&sid=$', {'headers': {'Accept-Encoding': 'gzip'}}),
        ('poll_deflate', 'GET', q + '&sid=$', {'headers': {'Accept-Encoding': 'deflate, gzip'}}),
        ('open_gzip', 'GET', q, {'headers': {'Accept-Encoding': 'gzip, deflate'}}),
        ('get_unknown_gzip', 'GET', q + '&sid=nosuchsid-nosuchsid', {'headers': {'Accept-Encoding': 'gzip'}}),
        # codings spelt the way the client likes, with parameters, after codings this server does not know
        ('poll_gzip_case', 'GET', q + '&sid=$', {'headers': {'Accept-Encoding': 'GZIP, deflate'}}),
        ('get_unknown_deflate_case', 'GET', q + '&sid=nosuchsid-nosuchsid', {'headers': {'Accept-Encoding': 'br, Deflate;q=0.8, *;q=0'}}),
        ('open_gzip_q', 'GET', q, {'headers': {'Accept-Encoding': 'identity;q=0.1, gzip ; q=0.5'}}),
        ('poll_gzip_bad_q', 'GET', q + '&sid=$', {'headers': {'Accept-Encoding': 'gzip;q=, deflate;q=high'}}),
        ('open_bad_q', 'GET', q, {'headers': {'Accept-Encoding': 'br;q=1.0.0, gzip;q=-'}}),
        # a request without a Host header that carries forwarding headers (a proxy speaking HTTP/1.0 to the application server)
        ('poll_no_host_fwd', 'GET', q + '&sid=$', {'host': None, 'headers': {'X-Forwarded-Proto': 'https', 'Origin': 'https://pub.example'}}),
        ('open_no_host_fwd', 'GET', q, {'host': None, 'headers': {'X-Forwarded-Host': 'pub.example'}}),
        ('post_bad_gzip', 'POST', q + '&sid=$', {'body': b'7', 'headers': {'Accept-Encoding': 'gzip'}}),
        ('open_ws_upgrade_only', 'GET', 'EIO=4&transport=websocket', {'headers': {'Upgrade': 'websocket'}}),
        ('open_ws_nohdr', 'GET', 'EIO=4&transport=websocket', {}),
        ('open_bad_eio', 'GET', 'EIO=3&transport=polling', {}),
        ('open_no_query', 'GET', '', {}),
        ('get_unknown', 'GET', q + '&sid=nosuchsid', {}),
        ('get_bad_transport', 'GET', 'EIO=4&transport=bogus&sid=$', {}),
        ('post_msg', 'POST', q + '&sid=$', {'body': b'4x'}),
        ('post_close', 'POST', q + '&sid=$', {'body': b'1'}),
        ('post_bad_type', 'POST', q + '&sid=$', {'body': b'7'}),
        ('post_open_pkt', 'POST', q + '&sid=$', {'body': b'0'}),
        ('post_bad_digit', 'POST', q + '&sid=$', {'body': b'x'}),
        ('post_bad_b64', 'POST', q + '&sid=$', {'body': b'b!'}),
        ('post_bad_utf8', 'POST', q + '&sid=$', {'body': b'4\xff\xfe'}),
        ('post_deep_json', 'POST', q + '&sid=$', {'body': b'4' + b'[' * 3000}),
        ('post_empty', 'POST', q + '&sid=$', {'body': b''}),
        ('post_17', 'POST', q + '&sid=$', {'body': '\x1e'.join(['4m'] * 17).encode()}),
        ('post_1000', 'POST', q + '&sid=$', {'body': '\x1e'.join(['6'] * 1000).encode()}),
        ('post_oversize', 'POST', q + '&sid=$', {'body': b'4' + b'a' * 4100}),
        ('post_bad_length', 'POST', q + '&sid=$', {'body': b'4x', 'headers': {}, 'declared': 0}),
        ('post_form', 'POST', q + '&sid=$&j=0', {'body': b'd=4x%1E4y'}),
        ('post_unknown', 'POST', q + '&sid=nosuchsid', {'body': b'4x'}),
        ('post_nosid', 'POST', q, {'body': b'4x'}),
        ('options', 'OPTIONS', q + '&sid=$', {}),
        ('put', 'PUT', q + '&sid=$', {'body': b'4x'}),
        ('delete', 'DELETE', q + '&sid=$', {}),
        ('head', 'HEAD', q, {}),
    ]:
        P.append(('http', name, method, query, kw))
    # requests that arrive as WebSocket handshakes (browsers send Accept-Encoding on those too)
    for name, query in [
        ('ws_unknown_gzip', 'EIO=4&transport=websocket&sid=nosuchsid-nosuchsid'),
        ('ws_bad_eio_gzip', 'EIO=3&transport=websocket'),
        ('ws_bad_transport_gzip', 'EIO=4&transport=bogus&sid=$'),
        ('ws_open_gzip', 'EIO=4&transport=websocket'),
    ]:
        P.append(('ws', name, 'GET', query, {'headers': {'Accept-Encoding': 'gzip, deflate, br'}}))
    for name, fn, args in [
        ('send', 'send', ('$', 'x')), ('send_unknown', 'send', ('nosuchsid', 'x')),
        ('send_bytes', 'send', ('$', b'\x00')),
        ('disconnect_sid', 'disconnect', ('$',)), ('disconnect_unknown', 'disconnect', ('nosuchsid',)),
        ('disconnect_all', 'disconnect', ()),
    ]:
        P.append(('call', name, fn, args, None))
    P.append(('call', 'send_flood', 'send', ('$', 'x'), None))       # last: only used by the flood pass
    return P


PROBES = probes()


def run_probe(impl, hist, probe, out):
    w, st = build(impl, hist)
    if w is None:
        return None
    try:
        sid = st.sids[0] if st.sids else 'nosessionyet'
        kind, name = probe[0], probe[1]
        if kind == 'http':
            _, _, method, query, kw = probe
            h = w.http(method, query.replace('$', sid), **kw)
        elif kind == 'ws':
            h = w.ws(probe[3].replace('$', sid), headers=probe[4]['headers'])
        else:
            _, _, fn, args, _ = probe
            # who could drain the packet queue(s) the call may have to wait for: per live session, 'websocket' (writer task),
            # 'poll_pending' (a long-poll is waiting) or 'none'; the weakest over the sessions the call addresses
            def reader_of(x):
                if x not in w.live_sids():
                    return 'dead'
                if w.transport(x) == 'websocket':
                    return 'websocket'
                pend = [r for r in w.reqs if not r.done and r.method == 'GET' and ('sid=' + x) in r.query]
                return 'poll_pending' if pend and not st.vanished else 'none'
            targets = [sid] if args and args[0] == '$' else (list(w.live_sids()) if not args else [])
            rs = [reader_of(x) for x in targets]
            reader = ([k for k in ('none', 'poll_pending', 'websocket', 'dead') if k in rs] or ['no_session'])[0]
            if name == 'send_flood':
                # 1100 messages queued back to back for a session whose client may be slow or gone
                h = w.call_seq('send', [(sid, 'flood-%d' % i) for i in range(1100)])
            else:
                h = w.call(fn, *[sid if a == '$' else a for a in args])
        w.run()
        w.run_until(w.now + HORIZON)
        case = {'history': list(hist), 'probe': name}

        def V(k, trigger, text, site='', **more):
            out.append(report.Violation(
                dict({'impl': impl, 'kind': k, 'trigger': trigger, 'site': site}, **more),
                '[%s] after %r, %s: %s' % (impl, list(hist), name, text),
                {'impl': impl, 'case': case}, weight=(len(hist), len(name))))
        if kind == 'call':
            if not h.done:
                site = w.blocked_site(h)
                V('api_call_blocked', 'call=' + probe[2] + ('(sid)' if probe[3] else '()'),
                  'call has not returned after %.0fs of virtual time; parked in %s (queue reader at the time of the call: %s)'
                  % (HORIZON, site, reader), site[-1] if site else 'unknown', reader=reader)
            elif h.exc:
                V('api_call_raised', 'call=' + probe[2] + ('(sid)' if probe[3] else '()'),
                  'raised %s: %s at %s' % (h.exc['type'], h.exc['text'], h.exc['site']),
                  (h.exc['site'] or ['unknown'])[-1])
        # every plain HTTP request of this world (the probe and the history's own) must be complete and well formed
        for r in w.reqs:
            mine = r is h
            trig = ('probe=' + name) if mine else 'history_request'
            if not r.done:
                site = w.blocked_site(r)
                V('request_blocked', trig, '%s %s still unanswered after %.0fs; parked in %s' % (r.method, r.query[:40], HORIZON, site),
                  site[-1] if site else 'unknown')
            elif r.exc:
                V('exception_escaped', trig, '%s raised %s: %s at %s' % (r.method, r.exc['type'], r.exc['text'], r.exc['site']),
                  (r.exc['site'] or ['unknown'])[-1], exc=r.exc['type'],
                  **({'relayed': hist[-1]} if hist and hist[0] == '!relay' else {}))
            elif r.gateway_errors:
                V('malformed_response', trig, '%s %s: %s' % (r.method, r.query[:40], '; '.join(r.gateway_errors)))
            elif r.status not in (200, 400, 401, 405):
                V('unexpected_status', trig, 'status %r' % (r.status,))
        for s in w.wss:
            if s.gateway_errors:
                V('malformed_ws_events', 'websocket_scope', '; '.join(s.gateway_errors))
            elif s.exc:
                V('exception_escaped', ('probe=' + name) if s is h else 'history_websocket',
                  'WebSocket handshake request raised %s: %s at %s' % (s.exc['type'], s.exc['text'], s.exc['site']),
                  (s.exc['site'] or ['unknown'])[-1])
        return True
    finally:
        w.teardown()


def _probe_work(chunk):
    out = []
    n = 0
    for impl, hist, probe_idx in chunk:
        try:
            if run_probe(impl, hist, PROBES[probe_idx], out):
                n += 1
        except report.Livelock as e:
            out.append(report.livelock_violation(impl, e, {'impl': impl, 'case': {'history': list(hist), 'probe': PROBES[probe_idx][1]}}))
    return [v.to_json() for v in out[:400]], n, len(out)


def bfs(impl, depth):
    """Returns list of representative histories (one per distinct state) and counters."""
    seen = {}
    frontier = collections.deque([()])
    w, st = build(impl, ())
    seen[state_key(w, st)] = ()
    w.teardown()
    w, st = build(impl, UPGRADED)
    if w is not None:
        seen.setdefault(state_key(w, st), UPGRADED)
        w.teardown()
        frontier.append(UPGRADED)
    transitions = 0
    maxd = 0
    while frontier:
        hist = frontier.popleft()
        if hist[:4] == UPGRADED:
            if len(hist) >= 4 + max(2, depth // 2):
                continue
        elif len(hist) >= depth:
            continue
        for a in ACTIONS:
            nh = hist + (a,)
            w, st = build(impl, nh)
            if w is None:
                continue
            transitions += 1
            try:
                k = state_key(w, st)
            finally:
                w.teardown()
            if k not in seen:
                seen[k] = nh
                frontier.append(nh)
                maxd = max(maxd, len(nh))
    return list(seen.values()), transitions, maxd


def _bfs_work(chunk):
    return [bfs(impl, depth) for impl, depth in chunk]


def run(ctx):
    rep = report.Report('C15', 'model_checking')
    depth = 4 if ctx.quick else 6
    res = parallel.pmap_chunks(_bfs_work, [[('sync', depth)], [('async', depth)]], 2, ctx.seed)
    jobs = []
    states = 0
    transitions = 0
    maxd = 0
    per_impl = {}
    for impl, r in zip(('sync', 'async'), [x[0] for x in res]):
        hists, tr, md = r
        per_impl[impl] = len(hists)
        states += len(hists)
        transitions += tr
        maxd = max(maxd, md)
        for h in hists:
            for i in range(len(PROBES) - 1):
                jobs.append((impl, h, i))
        # farewell pass: a disconnect handler that yields and then sends to the ending session; every probe from four states
        for base_h in (('open',), ('open', 'poll'), ('open', 'send', 'poll'), UPGRADED):
            for i in range(len(PROBES) - 1):
                jobs.append((impl, ('!farewell',) + base_h, i))
        # failing-application pass: handlers that raise (a TypeError from a two-argument disconnect handler, anything from a
        # legacy one-argument one, an exception from the message handler) - every probe from four states
        for mark in ('!hostile', '!legacy'):
            for base_h in (('open',), ('open', 'poll'), ('open', 'send', 'poll'), UPGRADED):
                for i in range(len(PROBES) - 1):
                    jobs.append((impl, (mark,) + base_h, i))
        # flood pass: more messages than any bounded buffer would hold, sent to a session from three states
        P_FLOOD = len(PROBES) - 1
        for base_h in (('open',), ('open', 'poll'), ('open', 'vanish'), UPGRADED):
            jobs.append((impl, base_h, P_FLOOD))
        # relay pass: the application sends back what it receives, and a client posts text that decodes to a lone surrogate
        for base_h in (('open', 'post_surrogate'), ('open', 'poll', 'post_surrogate'), UPGRADED + ('post_surrogate',),
                       ('open', 'post_surrogate_json'), ('open', 'poll', 'post_surrogate_json')):
            for i in range(len(PROBES) - 1):
                jobs.append((impl, ('!relay',) + base_h, i))
        # overlap pass: every probe arrives while the disconnect handler of an ending session is asleep
        for base_h in (('open',), ('open', 'poll'), UPGRADED):
            for f in OVERLAP_FIRSTS:
                for i in range(len(PROBES) - 1):
                    jobs.append((impl, base_h + (f,), i))
    res = parallel.pmap_chunks(_probe_work, parallel.split(jobs, ctx.workers * 8), ctx.workers, ctx.seed, maxtasks=6)
    n = 0
    nv = 0
    for vs, k, m in res:
        n += k
        nv += m
        for v in vs:
            rep.add(report.Violation.from_json(v))
    rep.coverage = {
        'states': states, 'transitions': transitions + n, 'traces_validated_against_impl': transitions + n,
        'samples': [{'history': ['open', 'poll', 'ws_connect'], 'probe': 'post_bad_type'},
                    {'history': ['open', 'post_close'], 'probe': 'disconnect_all'},
                    {'history': [], 'probe': 'disconnect_all'}],
        'evaluations': n, 'distinct_nontrivial': n,
        'rule': 'breadth-first search over %r to depth %d (and depth/2 further from the state reached by a completed upgrade) with de-duplication on a canonical digest of sessions, queues, pending '
                'requests/sockets, events and next timer; in each of the distinct states each of %d probes (%d HTTP requests incl. '
                'malformed bodies, %d API calls) is issued on a fresh replay and the world run %.0fs of virtual time past it. '
                'A farewell pass issues every probe on worlds whose disconnect handler yields and then sends to the ending session; a failing-application pass on worlds whose message handler raises and whose disconnect handler raises TypeError, or is a legacy one-argument handler that raises; a relay pass on worlds whose application sends back what it receives, after a client posted text that decodes to a lone surrogate. An overlap pass issues every probe while the disconnect handler (0.25 s) of a session that is being ended by a bad / oversize / CLOSE POST or by disconnect(sid) is still asleep, from three base states. states = distinct digests over both servers; transitions = history steps explored + probe executions.'
                % (ACTIONS, depth, len(PROBES), len([p for p in PROBES if p[0] == 'http']), len([p for p in PROBES if p[0] == 'call']), HORIZON),
        'exhaustive': True, 'bound_completed': depth, 'max_depth_reached': maxd, 'states_per_impl': per_impl,
        'violating_cases_total': nv,
    }
    rep.assumptions = [
        'default schedule (environment speaks at quiescence); zero-time computation',
        'WebSocket upgrade requests are exempt from the completion clause (they live as long as the socket) but not from the ASGI event-order validator',
        'the state digest is an over-fine abstraction: sessions, queues, flags, pending requests, event log and next timer offset',
    ]
    return rep


def replay(ctx, payload):
    r = payload['replay']
    out = []
    name = r['case']['probe']
    probe = [p for p in PROBES if p[1] == name][0]
    run_probe(r['impl'], tuple(r['case']['history']), probe, out)
    for v in out:
        print('REPLAY VIOLATION:', v.text)
    print('replayed; violations=%d' % len(out))
    return 1 if out else 0
