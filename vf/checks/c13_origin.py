"""C13 Origin policy is enforced before anything else and CORS headers never
over-grant.

Exhaustive product of cors_allowed_origins forms x credentials x Origin values
x Host / X-Forwarded-* combinations x request kinds on both servers, against
the origin reference; refused requests must leave all session state, queues
and the handler log untouched.
"""
import itertools

from vf import report
from vf.explore import parallel
from vf.vworld import peer
from vf.checks.c12_admission import snapshot

CFGS = ['none', 'star', 'string', 'list', 'callable', 'empty']
LISTED = 'http://listed.example'
ORIGINS = ['absent', 'empty', 'same', 'forwarded', 'listed', 'case', 'listed_case', 'prefix', 'suffix', 'listed_suffix',
           'port', 'slash', 'null', 'foreign', 'mixed_host', 'mixed_scheme']
HOSTS = ['h', None]
XFPS = [None, 'https', 'https, http']
XFHS = [None, 'pub.example', 'pub.example, inner.lan']
KINDS = ['open', 'poll', 'post', 'upgrade', 'options', 'options_sid']


RAISING = ('null', 'http://evil.example')      # origins on which the raising predicate fails with a TypeError


def _raising_predicate(o):
    if o in RAISING:
        raise TypeError('this predicate cannot judge %r' % (o,))
    return o == LISTED


def cfg_value(cfg):
    if cfg == 'callable_raises':
        return _raising_predicate
    return {'none': None, 'star': '*', 'string': LISTED, 'list': [LISTED, 'http://h'],
            'callable': (lambda o: o == LISTED), 'empty': []}[cfg]


def first(v):
    return v.split(',')[0].strip()


def origin_value(name, host, xfp, xfh):
    fwd = '%s://%s' % (first(xfp) if xfp else 'http', first(xfh) if xfh else (host or 'h'))
    return {'absent': None, 'empty': '', 'same': 'http://h', 'forwarded': fwd, 'listed': LISTED,
            'case': 'HTTP://H', 'listed_case': LISTED.upper(), 'prefix': 'http://liste', 'suffix': 'http://h.evil.com',
            'listed_suffix': LISTED + '.evil.com', 'port': 'http://h:8080', 'slash': 'http://h/',
            'null': 'null', 'foreign': 'http://evil.example',
            # neither view: the gateway's scheme with the forwarded host, the forwarded scheme with the gateway's host
            'mixed_host': 'http://%s' % (first(xfh) if xfh else (host or 'h')),
            'mixed_scheme': '%s://%s' % (first(xfp) if xfp else 'http', host or 'h')}[name]


def classify(origin, cfg, host, xfp, xfh):
    """-> absent / nocheck / allowed / allowed_soft / disallowed / ambiguous."""
    if origin is None:
        return 'absent'
    if cfg == 'empty':
        return 'nocheck'
    if origin == '':
        return 'ambiguous'
    if cfg == 'star':
        return 'allowed'
    if cfg == 'callable_raises':
        # a predicate that raises has not allowed the origin: the request is not admitted (how it fails is not judged)
        return 'raises' if origin in RAISING else 'allowed' if origin == LISTED else 'disallowed'
    if cfg == 'none':
        allowed = set()
        if host is not None:
            allowed.add('http://' + host)
            if xfp or xfh:
                allowed.add('%s://%s' % (first(xfp) if xfp else 'http', first(xfh) if xfh else host))
    elif cfg == 'string' or cfg == 'callable':
        allowed = {LISTED}
    else:
        allowed = {LISTED, 'http://h'}
    if cfg == 'none' and xfp and host is not None and origin == '%s://%s' % (first(xfp), host) and origin not in allowed:
        return 'ambiguous'            # the ASGI adapter reports the forwarded scheme as the request's own
    if origin in allowed:
        if cfg == 'none' and xfp:
            return 'allowed_soft'     # scheme seen by the gateway is ambiguous under X-Forwarded-Proto
        return 'allowed'
    if origin.lower() in {a.lower() for a in allowed}:
        return 'disallowed' if cfg == 'callable' else 'ambiguous'     # a predicate is its own reference
    return 'disallowed'


def request_headers(origin, host, xfp, xfh):
    h = {}
    if origin is not None:
        h['Origin'] = origin
    if xfp:
        h['X-Forwarded-Proto'] = xfp
    if xfh:
        h['X-Forwarded-Host'] = xfh
    return h


def prepare(impl, cfg, cred):
    w = peer.make_world(impl, server_kwargs=dict(cors_allowed_origins=cfg_value(cfg), cors_credentials=cred))
    sid = peer.sid_of(peer.open_polling(w))
    w.call('send', sid, 'queued')
    w.run()
    return w, sid


def issue(w, impl, kind, sid, headers, host):
    if kind == 'open':
        r = w.http('GET', peer.BASEQ, headers=headers, host=host)
    elif kind == 'poll':
        r = w.http('GET', peer.BASEQ + '&sid=' + sid, headers=headers, host=host)
    elif kind == 'post':
        r = w.http('POST', peer.BASEQ + '&sid=' + sid, headers=headers, host=host, body=b'4from-client')
    elif kind == 'options':
        r = w.http('OPTIONS', peer.BASEQ, headers=headers, host=host)
    elif kind == 'options_sid':
        r = w.http('OPTIONS', peer.BASEQ + '&sid=' + sid, headers=headers, host=host)
    else:
        r = w.ws(peer.WSQ + '&sid=' + sid, headers=headers, host=host)
    w.run()
    return r


def run_cases(impl, cfg, cred, cases, out, stats):
    w = None
    sid = None
    try:
        for (oname, host, xfp, xfh, kind) in cases:
            if w is None:
                w, sid = prepare(impl, cfg, cred)
                stats['worlds'] += 1
            origin = origin_value(oname, host, xfp, xfh)
            cls = classify(origin, cfg, host, xfp, xfh)
            headers = request_headers(origin, host, xfp, xfh)
            before = snapshot(w)
            h = issue(w, impl, kind, sid, headers, host)
            stats['requests'] += 1
            stats[cls] = stats.get(cls, 0) + 1
            is_ws = kind == 'upgrade'
            if is_ws:
                status = 200 if h.accepted else (h.status if h.status is not None else (400 if h.rejected else None))
                rh = []
            else:
                status = h.status
                rh = h.resp_headers or []

            def V(k, text):
                out.append(report.Violation(
                    {'impl': impl, 'kind': k, 'trigger': 'cfg=%s origin=%s' % (cfg, oname)},
                    '[%s cfg=%s cred=%s kind=%s Origin=%r Host=%r XFP=%r XFH=%r] %s'
                    % (impl, cfg, cred, kind, origin, host, xfp, xfh, text),
                    {'impl': impl, 'cfg': cfg, 'cred': cred, 'case': [oname, host, xfp, xfh, kind]},
                    weight=(0, 0)))
            dirty = True
            if cls == 'raises':
                acao = [v for k, v in rh if k.lower() == 'access-control-allow-origin']
                if acao:
                    V('acao_overgrant', 'Access-Control-Allow-Origin %r for an Origin on which the predicate raised' % (acao,))
                if not h.exc and status == 200:
                    V('disallowed_origin_admitted', 'status 200 for an Origin on which the predicate raised (TypeError)')
                if snapshot(w) != before:
                    V('disallowed_origin_had_effect', 'session state / event log changed although the predicate raised')
            elif h.exc:
                V('exception_escaped', 'raised %s at %s' % (h.exc['type'], h.exc['site']))
            else:
                acao = [v for k, v in rh if k.lower() == 'access-control-allow-origin']
                acac = [v for k, v in rh if k.lower() == 'access-control-allow-credentials']
                if cfg == 'empty' and (acao or acac):
                    V('cors_header_with_empty_list', 'CORS headers %r %r although the allow-list is empty' % (acao, acac))
                if acao and (len(acao) > 1 or acao[0] != origin or cls in ('disallowed',)):
                    V('acao_overgrant', 'Access-Control-Allow-Origin %r for request Origin %r (%s)' % (acao, origin, cls))
                if acac and not cred:
                    V('credentials_overgrant', 'Allow-Credentials %r with cors_credentials=False' % acac)
                if cls == 'disallowed':
                    if status != 400:
                        V('disallowed_origin_admitted', 'status %r for a disallowed Origin' % (status,))
                    if snapshot(w) != before:
                        V('disallowed_origin_had_effect', 'session state / event log changed')
                    else:
                        dirty = False
                elif cls in ('allowed', 'absent', 'nocheck'):
                    if status != 200:
                        V('allowed_origin_refused', 'status %r for an allowed/absent Origin' % (status,))
                if kind in ('options', 'options_sid') and snapshot(w) == before:
                    dirty = False
            if dirty:
                w.teardown()
                w = None
    finally:
        if w is not None:
            w.teardown()


def verdict(w, h, before):
    rh = h.resp_headers or []
    return {'status': h.status, 'exc': (h.exc or {}).get('type'),
            'acao': sorted(v for k, v in rh if k.lower() == 'access-control-allow-origin'),
            'acac': sorted(v for k, v in rh if k.lower() == 'access-control-allow-credentials'),
            'changed': snapshot(w) != before}


def run_pairs(impl, cfg, out, stats):
    """Two requests on one server: the verdict on the second depends on the second alone (the policy keeps no
    memory of hosts, forwarded headers or origins seen earlier). Judged twice: against the origin reference, and
    differentially against the same second request on a fresh server."""
    firsts = [(xfp, xfh, ('fwd' if o1 else None), k1) for xfp in (None, 'https') for xfh in (None, 'pub.example', 'evil.example')
              for o1 in (None, 'fwd') for k1 in ('open', 'options') if (xfp or xfh)]
    firsts += [(None, None, o1, k1) for o1 in (LISTED, 'http://h', LISTED.upper(), 'http://evil.example') for k1 in ('open', 'post')]
    seconds = ['http://h', 'http://pub.example', 'https://pub.example', 'http://evil.example', 'https://h', LISTED, None,
               LISTED.upper(), 'http://Listed.Example', LISTED + '.evil.com', 'HTTP://H']
    fresh = {}
    for o2 in seconds:
        for k2 in ('open', 'poll'):
            w, sid = prepare(impl, cfg, True)
            stats['worlds'] += 1
            try:
                before = snapshot(w)
                fresh[(o2, k2)] = verdict(w, issue(w, impl, k2, sid, request_headers(o2, 'h', None, None), 'h'), before)
                stats['requests'] += 1
            finally:
                w.teardown()
    for xfp, xfh, o1, k1 in firsts:
        for o2 in seconds:
            for k2 in ('open', 'poll'):
                w, sid = prepare(impl, cfg, True)
                stats['worlds'] += 1
                try:
                    fwd = '%s://%s' % (first(xfp) if xfp else 'http', first(xfh) if xfh else 'h')
                    org1 = fwd if o1 == 'fwd' else o1
                    issue(w, impl, k1, sid, request_headers(org1, 'h', xfp, xfh), 'h')
                    if sid not in w.live_sids():
                        continue
                    cls = classify(o2, cfg, 'h', None, None)
                    if cfg == 'callable' and o2 is not None:
                        cls = 'allowed' if o2 == LISTED else 'disallowed'     # the predicate itself is the reference
                    before = snapshot(w)
                    h = issue(w, impl, k2, sid, request_headers(o2, 'h', None, None), 'h')
                    stats['requests'] += 2
                    vd = verdict(w, h, before)
                    acao = vd['acao']
                    text = None
                    if h.exc:
                        text = ('exception_escaped', 'raised %s' % h.exc['type'])
                    elif cls == 'disallowed' and (h.status != 400 or vd['changed']):
                        text = ('disallowed_origin_admitted', 'status %r (state changed: %s)' % (h.status, vd['changed']))
                    elif cls == 'disallowed' and acao:
                        text = ('acao_overgrant', 'Access-Control-Allow-Origin %r' % acao)
                    elif cls in ('allowed', 'absent') and h.status != 200:
                        text = ('allowed_origin_refused', 'status %r' % h.status)
                    elif vd != fresh[(o2, k2)]:
                        text = ('verdict_depends_on_history', 'verdict %r; the same request on a fresh server: %r' % (vd, fresh[(o2, k2)]))
                    if text:
                        out.append(report.Violation(
                            {'impl': impl, 'kind': text[0], 'trigger': 'request_pair cfg=%s' % cfg},
                            '[%s cfg=%s] after a %s request with X-Forwarded-Proto=%r X-Forwarded-Host=%r Origin=%r, a %s request with '
                            'Origin=%r and no forwarded headers: %s' % (impl, cfg, k1, xfp, xfh, org1, k2, o2, text[1]),
                            {'harness': 'pair', 'impl': impl, 'cfg': cfg}, weight=(1, 0)))
                finally:
                    w.teardown()


def run_two_sessions(impl, cfg, out, stats):
    """Two sessions alive at once, each opened and used through its own host with its own origin; then every (session,
    host, origin, kind) request, each on a freshly prepared copy of that state: the verdict is that of the request alone."""
    hosts = ['a.example', 'b.example']
    origins = ['http://a.example', 'http://b.example', 'http://evil.example', None]

    def prep():
        w = peer.make_world(impl, server_kwargs=dict(cors_allowed_origins=cfg_value(cfg), cors_credentials=True))
        sids = []
        for hst in hosts:
            org = 'http://' + hst
            r = w.http('GET', peer.BASEQ, headers={'Origin': org}, host=hst)
            w.run()
            sid = peer.sid_of(r)
            sids.append(sid)
            if sid is not None:
                w.call('send', sid, 'queued')
                w.run()
                pr = w.http('POST', peer.BASEQ + '&sid=' + sid, headers={'Origin': org}, host=hst, body=b'4hello')
                w.run()
        return w, sids
    for si in (0, 1):
        for hst in hosts:
            for org in origins:
                for kind in ('post', 'poll'):
                    w, sids = prep()
                    stats['worlds'] += 1
                    try:
                        if None in sids:
                            continue        # this policy does not admit the preparing requests (judged by the single-request product)
                        cls = classify(org, cfg, hst, None, None)
                        if cfg == 'callable' and org is not None:
                            cls = 'allowed' if org == LISTED else 'disallowed'
                        before = snapshot(w)
                        h = issue(w, impl, kind, sids[si], request_headers(org, hst, None, None), hst)
                        stats['requests'] += 1
                        vd = verdict(w, h, before)
                        text = None
                        if h.exc:
                            text = ('exception_escaped', 'raised %s' % h.exc['type'])
                        elif cls == 'disallowed' and (h.status != 400 or vd['changed']):
                            text = ('disallowed_origin_admitted', 'status %r (state changed: %s)' % (h.status, vd['changed']))
                        elif cls == 'disallowed' and vd['acao']:
                            text = ('acao_overgrant', 'Access-Control-Allow-Origin %r' % vd['acao'])
                        elif cls in ('allowed', 'absent') and h.status != 200:
                            text = ('allowed_origin_refused', 'status %r' % h.status)
                        if text:
                            out.append(report.Violation(
                                {'impl': impl, 'kind': text[0], 'trigger': 'two_sessions cfg=%s' % cfg},
                                '[%s cfg=%s] two sessions opened and used via %r with their own origins; then a %s for session #%d via '
                                'Host %r with Origin %r: %s' % (impl, cfg, hosts, kind, si, hst, org, text[1]),
                                {'harness': 'two', 'impl': impl, 'cfg': cfg}, weight=(2, 0)))
                    finally:
                        w.teardown()


def run_overlap(impl, cfg, out, stats):
    """A long-poll is pending (Origin A) when a POST of the same session arrives with another allowed Origin B (or none); then
    a send releases the poll: every response carries the grant of its own request."""
    allowed = {'star': ['http://one.example', 'http://two.example'], 'list': [LISTED, 'http://h']}[cfg]
    for oa in allowed + [None]:
        for ob in allowed + [None]:
            if oa == ob:
                continue
            w, sid = prepare(impl, cfg, True)
            stats['worlds'] += 1
            try:
                peer.poll(w, sid)                      # drains the queued packet
                g = w.http('GET', peer.BASEQ + '&sid=' + sid, headers=request_headers(oa, 'h', None, None), host='h')
                w.run()
                r = w.http('POST', peer.BASEQ + '&sid=' + sid, headers=request_headers(ob, 'h', None, None), host='h', body=b'4x')
                w.run()
                w.call('send', sid, 'release')
                w.run()
                stats['requests'] += 2
                for name, req, org in (('pending GET', g, oa), ('POST', r, ob)):
                    acao = [v for k, v in (req.resp_headers or []) if k.lower() == 'access-control-allow-origin']
                    want = [org] if org is not None else []
                    if req.done and req.status == 200 and acao != want and not (cfg == 'star' and org is None and acao in ([], ['*'])):
                        out.append(report.Violation(
                            {'impl': impl, 'kind': 'acao_overgrant', 'trigger': 'overlapping_requests cfg=%s' % cfg},
                            '[%s cfg=%s] a poll with Origin %r was pending while a POST with Origin %r was served: the %s answered with '
                            'Access-Control-Allow-Origin %r, want %r' % (impl, cfg, oa, ob, name, acao, want),
                            {'harness': 'overlap', 'impl': impl, 'cfg': cfg}, weight=(2, 0)))
            finally:
                w.teardown()


def _work(chunk):
    out = []
    stats = {'worlds': 0, 'requests': 0}
    for impl, cfg, cred, cases in chunk:
        if cases == 'OVERLAP':
            try:
                run_overlap(impl, cfg, out, stats)
            except report.Livelock as e:
                out.append(report.livelock_violation(impl, e, {'harness': 'overlap', 'impl': impl, 'cfg': cfg}))
            continue
        if cases == 'TWO':
            try:
                run_two_sessions(impl, cfg, out, stats)
            except report.Livelock as e:
                out.append(report.livelock_violation(impl, e, {'harness': 'two', 'impl': impl, 'cfg': cfg}))
            continue
        if cases == 'PAIRS':
            try:
                run_pairs(impl, cfg, out, stats)
            except report.Livelock as e:
                out.append(report.livelock_violation(impl, e, {'harness': 'pair', 'impl': impl, 'cfg': cfg}))
            continue
        try:
            run_cases(impl, cfg, cred, cases, out, stats)
        except report.Livelock as e:
            out.append(report.livelock_violation(impl, e, {'impl': impl, 'cfg': cfg, 'cred': cred, 'case': list(cases[0])}))
    return [v.to_json() for v in out[:300]], stats, len(out)


def run(ctx):
    rep = report.Report('C13', 'exploration')
    if ctx.quick:
        xfps, xfhs = [None, 'https'], [None, 'pub.example, inner.lan']
    else:
        xfps, xfhs = XFPS, XFHS
    prod = list(itertools.product(ORIGINS, HOSTS, xfps, xfhs, KINDS))
    jobs = []
    for impl in ('sync', 'async'):
        for cfg in CFGS:
            for cred in (True, False):
                def key(c, cfg=cfg):
                    o, host, xfp, xfh, kind = c
                    return classify(origin_value(o, host, xfp, xfh), cfg, host, xfp, xfh) != 'disallowed'
                for part in parallel.split(sorted(prod, key=key), 4):
                    jobs.append((impl, cfg, cred, sorted(part, key=key)))
    # a predicate that raises for some origins: those requests are not admitted, have no effect and get no grant
    prod_r = [c for c in prod if c[0] in ('null', 'foreign', 'listed', 'absent', 'same') and c[1] == 'h' and c[2] is None]
    for impl in ('sync', 'async'):
        jobs.append((impl, 'callable_raises', True, prod_r))
    for impl in ('sync', 'async'):
        for cfg in CFGS:
            jobs.append((impl, cfg, True, 'PAIRS'))
        for cfg in ('none', 'star', 'empty'):
            jobs.append((impl, cfg, True, 'TWO'))
        for cfg in ('star', 'list'):
            jobs.append((impl, cfg, True, 'OVERLAP'))
    res = parallel.pmap_chunks(_work, [[j] for j in jobs], ctx.workers, ctx.seed, maxtasks=4)
    tot = {}
    nv = 0
    for vs, st, n in res:
        nv += n
        for v in vs:
            rep.add(report.Violation.from_json(v))
        for k, v in st.items():
            tot[k] = tot.get(k, 0) + v
    rep.coverage = {
        'evaluations': tot['requests'],
        'distinct_nontrivial': tot['requests'] - tot.get('absent', 0),
        'rule': 'cors_allowed_origins {None,*,string,list,callable,[]} x credentials x 14 Origin values x Host {h, absent} x '
                'X-Forwarded-Proto(%d) x X-Forwarded-Host(%d) x request kind {open, poll, post with a MESSAGE, '
                'WebSocket upgrade, OPTIONS, OPTIONS+sid} x {Server, AsyncServer}; plus request pairs on one server (a first request with '
                'X-Forwarded-* headers or with an allowed / case-variant / foreign Origin, then a second without forwarded headers) judged on the second alone: against the reference (for a callable the predicate itself) and differentially against the same request on a fresh server; and a state with two sessions, each opened and used through its own host with its own origin, in which every (session, host, origin, kind) request is judged on its own; and a pending poll overlapped by a POST of the same session with another allowed Origin (each response carries the grant of its own request). Non-trivial = requests bearing an Origin header.'
                % (len(xfps), len(xfhs)),
        'samples': [{'cfg': 'string', 'origin': 'http://liste', 'kind': 'post'},
                    {'cfg': 'none', 'origin': 'https://pub.example', 'XFP': 'https', 'XFH': 'pub.example, inner.lan', 'kind': 'upgrade'},
                    {'cfg': 'empty', 'origin': 'http://evil.example', 'kind': 'open'}],
        'exhaustive': True,
        'by_origin_class': {k: v for k, v in tot.items() if k not in ('worlds', 'requests')},
        'worlds_built': tot['worlds'], 'violating_cases_total': nv,
    }
    rep.assumptions = [
        'case variants of allowed origins and the empty Origin value carry no status verdict',
        "under the default policy with X-Forwarded-Proto present, 'allowed => not refused' is not required (the ASGI adapter derives the scheme from that header)",
        'the request scheme is http in every world',
    ]
    return rep


def replay(ctx, payload):
    r = payload['replay']
    out = []
    st = {'worlds': 0, 'requests': 0}
    if r.get('harness') == 'overlap':
        run_overlap(r['impl'], r['cfg'], out, st)
        for v in out[:5]:
            print('REPLAY VIOLATION:', v.text)
        return 1 if out else 0
    if r.get('harness') == 'two':
        run_two_sessions(r['impl'], r['cfg'], out, st)
        for v in out[:5]:
            print('REPLAY VIOLATION:', v.text)
        return 1 if out else 0
    if r.get('harness') == 'pair':
        run_pairs(r['impl'], r['cfg'], out, st)
        for v in out[:5]:
            print('REPLAY VIOLATION:', v.text)
        return 1 if out else 0
    run_cases(r['impl'], r['cfg'], r['cred'], [tuple(r['case'])], out, st)
    for v in out:
        print('REPLAY VIOLATION:', v.text)
    print('replayed; violations=%d' % len(out))
    return 1 if out else 0
