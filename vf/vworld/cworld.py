"""Client worlds: the real AsyncClient on the virtual loop and the real Client on
virtual threads, talking to a scripted server through contract-level fakes of
aiohttp / requests / websocket-client (DESIGN S6).

The scripted server is passive: every request the client makes becomes a
pending item that the scenario answers with an environment action (a response,
a connection error, or never - in which case the client's own timeout fires in
virtual time).
"""
import asyncio
import json as _json
import queue as _queue
import sys
import types

from vf.report import HarnessError, Livelock
from vf.vworld import base
from vf.vworld import clock as vclock
from vf.vworld import vloop
from vf.vworld import vthreads
from vf.vworld.aworld import site_of_tb


class PReq:
    """One HTTP request made by the client, waiting for the server's answer."""
    def __init__(self, n, method, url, headers, body, timeout, now, step):
        self.n = n
        self.method = method
        self.url = url
        self.headers = dict(headers or {})
        self.body = body
        self.timeout = timeout
        self.t = now
        self.step = step
        self.answered = False
        self.outcome = None      # ('resp', status, body, ctype) | ('error', kind) | ('timeout',)
        self.fut = None


class PWS:
    """One WebSocket connection attempt / connection of the client."""
    def __init__(self, n, url, opts, now, step):
        self.n = n
        self.url = url
        self.opts = opts
        self.t = now
        self.step = step
        self.decided = False
        self.accepted = False
        self.sent = []            # (time, step, kind, data) frames written by the client
        self.inbox = []           # frames / ('close',) queued by the server
        self.closed_by_client = False
        self.closed_by_server = False
        self.timeout = None
        self.fut = None
        self.waiter = None
        self.nwrite = 0           # writes attempted by the client on this socket
        self.fail_send_at = None  # set by the scenario: the write with this index fails (connection reset) ...
        self.fail_send_persist = False   # ... and every later one too
        self.stall = False        # set by the scenario: the peer is not reading, so the client's writes block
        self.stalled = 0          # writers currently blocked in a write
        self.stall_futs = []


class ScriptedServer:
    """What the scenario sees and controls."""
    def __init__(self, world):
        self.w = world
        self.reqs = []
        self.wss = []

    def pending_reqs(self, method=None):
        return [r for r in self.reqs if not r.answered and (method is None or r.method == method)]

    def pending_ws(self):
        return [s for s in self.wss if not s.decided]

    def open_ws(self):
        return [s for s in self.wss if s.accepted and not s.closed_by_client and not s.closed_by_server]


# --------------------------------------------------------------- handlers

class ClientEvents:
    def __init__(self):
        self.log = []       # (kind, arg, time, step)
        self.effects = {}   # kind -> callable(world, arg) returning list of effects


# =========================================================== asyncio client

class FakeAioResponse:
    def __init__(self, status, body, ctype):
        self.status = status
        self._body = body
        self.content_type = ctype
        self.headers = {'Content-Type': ctype}

    async def read(self):
        return self._body

    async def text(self):
        return self._body.decode('utf-8')

    async def json(self):
        import aiohttp
        if 'json' not in (self.content_type or ''):
            raise aiohttp.ContentTypeError(None, (), status=self.status,
                                           message='Attempt to decode JSON with unexpected mimetype')
        return _json.loads(self._body.decode('utf-8'))


class FakeCookieJar:
    def __init__(self):
        self.cookies = {}

    def update_cookies(self, cookies, response_url=None):
        self.cookies.update(dict(cookies))


class FakeAioWS:
    def __init__(self, world, pws):
        self.w = world
        self.p = pws
        self.closed = False

    async def _send(self, kind, data):
        await asyncio.sleep(0)
        while self.p.stall and not self.closed:
            f = self.w.loop.create_future()
            self.p.stall_futs.append(f)
            self.p.stalled += 1
            try:
                await f
            finally:
                self.p.stalled -= 1
        if self.closed or self.p.closed_by_server:
            raise ConnectionResetError('Cannot write to closing transport')
        k = self.p.nwrite
        self.p.nwrite = k + 1
        if self.p.fail_send_at is not None and (k == self.p.fail_send_at or (k > self.p.fail_send_at and self.p.fail_send_persist)):
            raise ConnectionResetError(104, 'Connection reset by peer')
        self.p.sent.append((self.w.clock.now, self.w.nstep, kind, data))

    async def send_str(self, data):
        if not isinstance(data, str):
            raise TypeError('data argument must be str (%r)' % type(data))
        await self._send('text', data)

    async def send_bytes(self, data):
        if not isinstance(data, (bytes, bytearray, memoryview)):
            raise TypeError('data argument must be byte-ish (%r)' % type(data))
        await self._send('binary', bytes(data))

    async def receive(self, timeout=None):
        import aiohttp
        while True:
            if self.closed:
                return aiohttp.WSMessage(aiohttp.WSMsgType.CLOSED, None, None)
            if self.p.inbox:
                item = self.p.inbox.pop(0)
                if item == ('close',):
                    self.p.closed_by_server = True
                    self.closed = True
                    return aiohttp.WSMessage(aiohttp.WSMsgType.CLOSE, 1000, '')
                if item == ('error',):
                    self.closed = True
                    raise aiohttp.client_exceptions.ServerDisconnectedError()
                if isinstance(item, (bytes, bytearray)):
                    return aiohttp.WSMessage(aiohttp.WSMsgType.BINARY, bytes(item), None)
                return aiohttp.WSMessage(aiohttp.WSMsgType.TEXT, item, None)
            self.p.waiter = self.w.loop.create_future()
            try:
                await self.p.waiter
            finally:
                self.p.waiter = None

    async def close(self, *a, **k):
        await asyncio.sleep(0)
        if not self.closed:
            self.closed = True
            self.p.closed_by_client = True
            self.p.t_closed = self.w.clock.now
            f = self.p.waiter
            if f is not None and not f.done():
                f.set_result(None)
        return True


class FakeAioSession:
    def __init__(self, world):
        self.w = world
        self.closed = False
        self.cookie_jar = FakeCookieJar()

    def _request(self, method, url, headers=None, data=None, timeout=None, **kw):
        return self.w._client_request(method, url, headers, data, timeout)

    def get(self, url, **kw):
        return self._request('GET', url, **kw)

    def post(self, url, **kw):
        return self._request('POST', url, **kw)

    def ws_connect(self, url, **opts):
        return self.w._client_ws_connect(url, opts)

    async def close(self):
        self.closed = True


class AsyncClientWorld:
    impl = 'async'

    def __init__(self, client_kwargs=None, shared=None, session=None, legacy_disconnect=False):
        self.legacy_disconnect = legacy_disconnect
        import engineio
        self.shared = shared
        self.clock = shared.clock if shared else vclock.VClock()
        vclock.set_current(self.clock)
        vclock.install()
        self.loop = shared.loop if shared else vloop.VLoop(self.clock)
        self.log = base.QuietLogger()
        self.server = ScriptedServer(self)
        self.session = session if session is not None else FakeAioSession(self)
        kw = dict(logger=self.log, http_session=self.session, handle_sigint=False, request_timeout=5)
        kw.update(client_kwargs or {})
        _reset_client_globals()
        world = self

        class VAsyncClient(engineio.AsyncClient):
            def start_background_task(self, target, *args, **kwargs):
                if target in self.handlers.values():
                    world.dispatch_log.append(args[0] if args else None)
                return super().start_background_task(target, *args, **kwargs)
        self.dispatch_log = []
        self.client = VAsyncClient(**kw)
        self.events = []
        self.effects = {}
        self.effect_log = []
        self.calls = []
        self.tasks = {}
        self._nstep = 0
        self._install()

    def _install(self):
        w = self

        async def run_effects(kind, arg):
            fn = w.effects.get(kind)
            for e in (fn(arg) if fn else []):
                if e[0] == 'disconnect':
                    w.effect_log.append(('disconnect', w.nstep, w.client.state))
                    await w.client.disconnect()
                elif e[0] == 'send':
                    await w.client.send(e[1])
                elif e[0] == 'raise':
                    raise base.HandlerError('handler failure')
                elif e[0] == 'yield':
                    await asyncio.sleep(0)
                elif e[0] == 'sleep':
                    await asyncio.sleep(e[1])

        async def on_connect():
            c = w.client
            w.events.append(('connect', {'sid': c.sid, 'transport': c.transport(), 'pi': c.ping_interval,
                                         'pt': c.ping_timeout}, w.clock.now, w.nstep))
            await run_effects('connect', None)

        async def on_message(data):
            w.events.append(('message', data, w.clock.now, w.nstep))
            await run_effects('message', data)

        async def on_disconnect(reason):
            w.events.append(('disconnect', reason, w.clock.now, w.nstep))
            await run_effects('disconnect', reason)
        self.client.on('connect', on_connect)
        self.client.on('message', on_message)
        self.client.on('disconnect', on_disconnect)
        if self.legacy_disconnect:
            # an application written for the older API: the handler takes no reason, and is registered through a pass-through
            # decorator (logging, timing, ...) as applications do
            async def legacy():
                w.events.append(('disconnect', None, w.clock.now, w.nstep))
                await run_effects('disconnect', None)

            async def forwarding(*args, **kwargs):
                return await legacy(*args, **kwargs)
            self.client.on('disconnect', forwarding)

    # ---- fake transport, client side
    async def _client_request(self, method, url, headers, data, timeout):
        import aiohttp
        await asyncio.sleep(0)
        total = getattr(timeout, 'total', timeout)
        p = PReq(len(self.server.reqs), method, url, headers, data, total, self.clock.now, self.nstep)
        p.fut = self.loop.create_future()
        self.server.reqs.append(p)
        try:
            res = await asyncio.wait_for(p.fut, total)
        except asyncio.TimeoutError:
            p.answered = True
            p.outcome = ('timeout',)
            raise
        return res

    async def _client_ws_connect(self, url, opts):
        import aiohttp
        await asyncio.sleep(0)
        s = PWS(len(self.server.wss), url, opts, self.clock.now, self.nstep)
        s.fut = self.loop.create_future()
        self.server.wss.append(s)
        try:
            ok = await asyncio.wait_for(s.fut, opts.get('timeout'))
        except asyncio.TimeoutError:
            s.decided = True
            raise aiohttp.client_exceptions.ServerTimeoutError()
        if not ok:
            raise aiohttp.client_exceptions.ClientConnectionError('connection refused')
        s.accepted = True
        s.conn = FakeAioWS(self, s)
        return s.conn

    # ---- server side (environment actions)
    def answer(self, p, status=200, body=b'', ctype='text/plain'):
        if isinstance(body, str):
            body = body.encode('utf-8')
        p.answered = True
        p.outcome = ('resp', status, body, ctype)
        with self.loop.enter():
            if not p.fut.done():
                p.fut.set_result(FakeAioResponse(status, body, ctype))

    def fail(self, p):
        import aiohttp
        p.answered = True
        p.outcome = ('error', 'connection')
        with self.loop.enter():
            if not p.fut.done():
                p.fut.set_exception(aiohttp.ClientConnectionError('connection refused'))

    def ws_decide(self, s, accept):
        s.decided = True
        with self.loop.enter():
            if not s.fut.done():
                s.fut.set_result(bool(accept))

    def ws_push(self, s, item):
        s.inbox.append(item)
        f = s.waiter
        if f is not None and not f.done():
            with self.loop.enter():
                f.set_result(None)

    def ws_release(self, s):
        """The peer reads again: blocked writes of the client complete."""
        s.stall = False
        futs, s.stall_futs = s.stall_futs, []
        for f in futs:
            if not f.done():
                with self.loop.enter():
                    f.set_result(None)

    # ---- application side
    def call(self, name, *args, **kw):
        c = base.Call(len(self.calls), name, args)
        self.calls.append(c)
        c.t_start = self.clock.now
        w = self

        async def runner():
            try:
                c.result = await getattr(w.client, name)(*args, **kw)
            except asyncio.CancelledError:
                raise
            except Exception as e:
                c.exc = {'type': type(e).__name__, 'text': str(e)[:200], 'site': site_of_tb(e.__traceback__),
                         'args': [repr(a)[:80] for a in e.args]}
            finally:
                c.t_done = w.clock.now
                c.step_done = w.nstep
                c.done = True
        vclock.set_current(self.clock)
        with self.loop.enter():
            self.tasks[c] = self.loop.create_task(runner())
        return c

    def call_seq(self, name, arglist):
        """Several calls of one method back to back from one application task."""
        c = base.Call(len(self.calls), name + '*%d' % len(arglist), arglist)
        self.calls.append(c)
        w = self

        async def runner():
            try:
                for a in arglist:
                    await getattr(w.client, name)(*a)
            except asyncio.CancelledError:
                raise
            except Exception as e:
                c.exc = {'type': type(e).__name__, 'text': str(e)[:200], 'site': site_of_tb(e.__traceback__)}
            finally:
                c.step_done = w.nstep
                c.done = True
        vclock.set_current(self.clock)
        with self.loop.enter():
            self.tasks[c] = self.loop.create_task(runner())
        return c

    # ---- stepping
    @property
    def nstep(self):
        return self.shared.nstep if self.shared else self._nstep

    @nstep.setter
    def nstep(self, v):
        if self.shared:
            self.shared.nstep = v
        else:
            self._nstep = v

    @property
    def now(self):
        return self.clock.now

    def runnable(self):
        return ['L'] if self.loop.has_ready() else []

    def step(self, actor='L'):
        vclock.set_current(self.clock)
        self.nstep += 1
        self.loop.step()

    def run(self, cap=6000):
        vclock.set_current(self.clock)
        n = 0
        while self.loop.has_ready():
            self.nstep += 1
            self.loop.step()
            n += 1
            if n > cap:
                raise Livelock('asyncio client world does not quiesce within %d steps' % cap)
        return n

    def next_deadline(self):
        return self.loop.next_deadline()

    def advance_to(self, t):
        self.clock.now = t
        vclock.set_current(self.clock)
        self.loop.fire_due()

    def run_until(self, t):
        self.run()
        while True:
            d = self.next_deadline()
            if d is None or d > t:
                break
            self.advance_to(d)
            self.run()
        if t > self.clock.now:
            self.advance_to(t)
            self.run()

    def tasks_alive(self):
        out = []
        for name in ('read_loop_task', 'write_loop_task'):
            t = getattr(self.client, name, None)
            if t is not None and hasattr(t, 'done') and not t.done():
                out.append(name)
        return out

    def registered(self):
        import engineio.base_client as bc
        return self.client in bc.connected_clients

    def loop_errors(self):
        import gc
        gc.collect(1)
        return list(self.loop.errors)

    def teardown(self):
        import gc
        vclock.set_current(self.clock)
        self.client.handlers = {}
        old = sys.unraisablehook
        sys.unraisablehook = lambda *a: None
        try:
            if not self.shared:
                self.loop.teardown()
            self.tasks.clear()
            _reset_client_globals()
            gc.collect()
        finally:
            sys.unraisablehook = old


def _reset_client_globals():
    import engineio.base_client as bc
    del bc.connected_clients[:]
    try:
        import engineio.async_client as ac
        ac.task_reference_holder.clear()
        ac.async_signal_handler_set = True
    except Exception:
        pass


# ========================================================== threaded client

class FakeRequestException(Exception):
    pass


class FakeTimeout(FakeRequestException):
    pass


class FakeConnError(FakeRequestException):
    pass


class FakeResponse:
    def __init__(self, status, body, ctype):
        self.status_code = status
        self.content = body
        self.headers = {'Content-Type': ctype}

    def json(self):
        from engineio.json import JSONDecodeError     # what requests raises is a subclass of json's error
        return _json.loads(self.content.decode('utf-8'))


class WSException(Exception):
    pass


class WSTimeout(WSException):
    pass


class WSClosed(WSException):
    pass


class FakeSyncWS:
    def __init__(self, world, pws):
        self.w = world
        self.p = pws
        self.connected = True
        self.timeout = None

    def settimeout(self, t):
        self.timeout = t
        self.p.timeout = t

    def _send(self, kind, data):
        self.w.sched.point('cws.send')
        if self.p.stall and self.connected:
            self.p.stalled += 1
            try:
                self.w.sched.block(lambda: not self.p.stall or not self.connected, None, 'cws.send.stalled')
            finally:
                self.p.stalled -= 1
        if not self.connected or self.p.closed_by_server:
            raise WSClosed('socket is already closed.')
        k = self.p.nwrite
        self.p.nwrite = k + 1
        if self.p.fail_send_at is not None and (k == self.p.fail_send_at or (k > self.p.fail_send_at and self.p.fail_send_persist)):
            raise OSError(104, 'Connection reset by peer')
        self.p.sent.append((self.w.clock.now, self.w.nstep, kind, data))

    def send(self, data):
        if isinstance(data, (bytes, bytearray)):
            # websocket-client encodes str; bytes given to send() go out as a TEXT frame
            self._send('text', bytes(data))
        else:
            self._send('text', data)

    def send_binary(self, data):
        self._send('binary', bytes(data))

    def recv(self):
        s = self.w.sched
        s.point('cws.recv')
        while True:
            if not self.connected:
                raise WSClosed('socket is already closed.')
            if self.p.inbox:
                item = self.p.inbox.pop(0)
                if item == ('close',):
                    self.p.closed_by_server = True
                    self.connected = False
                    raise WSClosed('Connection to remote host was lost.')
                if item == ('error',):
                    self.connected = False
                    raise OSError(104, 'Connection reset by peer')
                return item
            ok = s.block(lambda: bool(self.p.inbox) or not self.connected, self.timeout, 'cws.recv')
            if not ok:
                raise WSTimeout('timed out')

    def close(self, *a, **k):
        self.w.sched.point('cws.close')
        if self.connected:
            self.connected = False
            self.p.closed_by_client = True
            self.p.t_closed = self.w.clock.now


class FakeSyncSession:
    def __init__(self, world):
        self.w = world
        self.cookies = []
        self.auth = None
        self.cert = None
        self.proxies = {}
        self.verify = True

    def request(self, method, url, headers=None, data=None, timeout=None, **kw):
        return self.w._client_request(method, url, headers, data, timeout)


class SyncClientWorld:
    impl = 'sync'

    def __init__(self, client_kwargs=None, trace_funcs=None, shared=None, session=None, ws_connect=None, legacy_disconnect=False):
        self.legacy_disconnect = legacy_disconnect
        import engineio
        import engineio.client as ec
        self.shared = shared
        self.clock = shared.clock if shared else vclock.VClock()
        vclock.set_current(self.clock)
        vclock.install()
        self.sched = shared.sched if shared else vthreads.Sched(self.clock)
        if trace_funcs:
            self.sched.trace_funcs = set(trace_funcs)
        self.log = base.QuietLogger()
        self.server = ScriptedServer(self)
        self.session = session if session is not None else FakeSyncSession(self)
        self._ws_connect_override = ws_connect
        # stand-ins for the requests / websocket-client modules
        fake_requests = types.SimpleNamespace(
            exceptions=types.SimpleNamespace(RequestException=FakeRequestException),
            Session=lambda: self.session)
        world = self

        def create_connection(url, **opts):
            if world._ws_connect_override is not None:
                return world._ws_connect_override(url, opts)
            return world._client_ws_connect(url, opts)
        fake_ws = types.SimpleNamespace(
            create_connection=create_connection, WebSocketException=WSException,
            WebSocketTimeoutException=WSTimeout, WebSocketConnectionClosedException=WSClosed)
        ec.requests = fake_requests
        ec.websocket = fake_ws
        _reset_client_globals()
        s = self.sched

        self.dispatch_log = []

        class VClient(engineio.Client):
            def start_background_task(self, target, *args, **kwargs):
                if target in self.handlers.values():
                    world.dispatch_log.append(args[0] if args else None)
                th = vthreads.VThread(s, target=target, args=args, kwargs=kwargs)
                th.start()
                return th

            def sleep(self, seconds=0):
                return vthreads.make_sleep(s)(seconds)

            def create_queue(self, *args, **kwargs):
                q = vthreads.VQueue(s)
                q.Empty = _queue.Empty
                return q

            def create_event(self, *args, **kwargs):
                return vthreads.VEvent(s)
        kw = dict(logger=self.log, http_session=self.session, handle_sigint=False, request_timeout=5)
        kw.update(client_kwargs or {})
        self.client = VClient(**kw)
        self.events = []
        self.effects = {}
        self.effect_log = []
        self.calls = []
        self.vts = {}
        self._nstep = 0
        self._install()

    def _install(self):
        w = self

        def run_effects(kind, arg):
            fn = w.effects.get(kind)
            for e in (fn(arg) if fn else []):
                if e[0] == 'disconnect':
                    w.effect_log.append(('disconnect', w.nstep, w.client.state))
                    w.client.disconnect()
                elif e[0] == 'send':
                    w.client.send(e[1])
                elif e[0] == 'raise':
                    raise base.HandlerError('handler failure')
                elif e[0] == 'yield':
                    w.sched.point('yield')
                elif e[0] == 'sleep':
                    w.client.sleep(e[1])

        def on_connect():
            c = w.client
            w.events.append(('connect', {'sid': c.sid, 'transport': c.transport(), 'pi': c.ping_interval,
                                         'pt': c.ping_timeout}, w.clock.now, w.nstep))
            w.sched.point('handler')
            run_effects('connect', None)

        def on_message(data):
            w.events.append(('message', data, w.clock.now, w.nstep))
            w.sched.point('handler')
            run_effects('message', data)

        def on_disconnect(reason):
            w.events.append(('disconnect', reason, w.clock.now, w.nstep))
            w.sched.point('handler')
            run_effects('disconnect', reason)
        self.client.on('connect', on_connect)
        self.client.on('message', on_message)
        self.client.on('disconnect', on_disconnect)
        if self.legacy_disconnect:
            def legacy():
                w.events.append(('disconnect', None, w.clock.now, w.nstep))
                w.sched.point('handler')
                run_effects('disconnect', None)

            def forwarding(*args, **kwargs):
                return legacy(*args, **kwargs)
            self.client.on('disconnect', forwarding)

    # ---- fake transport, client side (runs in client vthreads)
    def _client_request(self, method, url, headers, data, timeout):
        self.sched.point('http.request')
        p = PReq(len(self.server.reqs), method, url, headers, data, timeout, self.clock.now, self.nstep)
        self.server.reqs.append(p)
        ok = self.sched.block(lambda: p.answered, timeout, 'http.wait')
        if not ok:
            p.answered = True
            p.outcome = ('timeout',)
            raise FakeTimeout('read timed out')
        if p.outcome[0] == 'error':
            raise FakeConnError('connection refused')
        _, status, body, ctype = p.outcome
        return FakeResponse(status, body, ctype)

    def _client_ws_connect(self, url, opts):
        self.sched.point('ws.connect')
        s = PWS(len(self.server.wss), url, opts, self.clock.now, self.nstep)
        self.server.wss.append(s)
        ok = self.sched.block(lambda: s.decided, opts.get('timeout'), 'ws.connect')
        if not ok:
            s.decided = True
            raise WSTimeout('connect timed out')
        if not s.accepted:
            how = getattr(s, 'refuse_how', 'refused')
            if how == 'unreachable':
                raise OSError(113, 'No route to host')          # an OSError that is not a ConnectionError
            if how == 'timeout':
                raise TimeoutError('timed out')
            raise ConnectionRefusedError(111, 'Connection refused')
        s.conn = FakeSyncWS(self, s)
        s.conn.timeout = opts.get('timeout')
        return s.conn

    # ---- server side (environment actions)
    def answer(self, p, status=200, body=b'', ctype='text/plain'):
        if isinstance(body, str):
            body = body.encode('utf-8')
        p.outcome = ('resp', status, body, ctype)
        p.answered = True

    def fail(self, p):
        p.outcome = ('error', 'connection')
        p.answered = True

    def ws_decide(self, s, accept, how='refused'):
        s.refuse_how = how
        s.accepted = bool(accept)
        s.decided = True

    def ws_push(self, s, item):
        s.inbox.append(item)

    def ws_release(self, s):
        """The peer reads again: blocked writes of the client complete."""
        s.stall = False

    # ---- application side
    def call(self, name, *args, **kw):
        c = base.Call(len(self.calls), name, args)
        self.calls.append(c)
        c.t_start = self.clock.now
        w = self

        def worker():
            try:
                w.sched.point('api')
                c.result = getattr(w.client, name)(*args, **kw)
            except vthreads.Unwind:
                raise
            except Exception as e:
                c.exc = {'type': type(e).__name__, 'text': str(e)[:200], 'site': site_of_tb(e.__traceback__),
                         'args': [repr(a)[:80] for a in e.args]}
            finally:
                c.t_done = w.clock.now
                c.step_done = w.nstep
                if not w.sched.killing:
                    c.done = True
        self.vts[c] = self.sched.spawn(worker, 'call%d' % c.cid, 'env')
        return c

    def call_seq(self, name, arglist):
        c = base.Call(len(self.calls), name + '*%d' % len(arglist), arglist)
        self.calls.append(c)
        w = self

        def worker():
            try:
                w.sched.point('api')
                for a in arglist:
                    getattr(w.client, name)(*a)
            except vthreads.Unwind:
                raise
            except Exception as e:
                c.exc = {'type': type(e).__name__, 'text': str(e)[:200], 'site': site_of_tb(e.__traceback__)}
            finally:
                c.step_done = w.nstep
                if not w.sched.killing:
                    c.done = True
        self.vts[c] = self.sched.spawn(worker, 'callseq%d' % c.cid, 'env')
        return c

    # ---- stepping
    @property
    def nstep(self):
        return self.shared.nstep if self.shared else self._nstep

    @nstep.setter
    def nstep(self, v):
        if self.shared:
            self.shared.nstep = v
        else:
            self._nstep = v

    @property
    def now(self):
        return self.clock.now

    def runnable(self):
        return [vt.id for vt in self.sched.enabled()]

    def step(self, actor=None):
        vclock.set_current(self.clock)
        if actor is None:
            en = self.sched.enabled()
            vt = en[0]
        else:
            vt = self.sched.threads[actor]
        self.nstep += 1
        self.sched.run_thread(vt)

    def run(self, cap=6000):
        vclock.set_current(self.clock)
        n = 0
        while True:
            en = self.sched.enabled()
            if not en:
                return n
            self.nstep += 1
            self.sched.run_thread(en[0])
            n += 1
            if n > cap:
                raise Livelock('threaded client world does not quiesce within %d steps' % cap)

    def next_deadline(self):
        return self.sched.next_deadline()

    def advance_to(self, t):
        self.clock.now = t

    def run_until(self, t):
        self.run()
        while True:
            d = self.next_deadline()
            if d is None or d > t:
                break
            self.advance_to(d)
            self.run()
        if t > self.clock.now:
            self.advance_to(t)
            self.run()

    def tasks_alive(self):
        out = []
        for name in ('read_loop_task', 'write_loop_task'):
            t = getattr(self.client, name, None)
            if t is not None and hasattr(t, 'is_alive') and t.is_alive():
                out.append(name)
        return out

    def registered(self):
        import engineio.base_client as bc
        return self.client in bc.connected_clients

    def loop_errors(self):
        out = []
        for vt in self.sched.threads:
            if vt.exc is not None and vt.kind == 'lib':
                out.append({'message': 'exception left thread %s' % vt.name, 'exception': repr(vt.exc)})
        return out

    def blocked_site(self, handle):
        vt = self.vts.get(handle)
        if vt is None or vt.done:
            return []
        return self.sched.stack_of(vt)

    def teardown(self):
        vclock.set_current(self.clock)
        self.client.handlers = {}
        if not self.shared:
            self.sched.kill()
        self.vts.clear()
        _reset_client_globals()


def make_client_world(impl, **kw):
    if impl == 'async':
        kw.pop('trace_funcs', None)
        return AsyncClientWorld(**kw)
    return SyncClientWorld(**kw)
