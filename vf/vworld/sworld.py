"""The threaded server world: real Server + real WSGIApp on virtual threads."""
import queue as _queue
import sys
import traceback

from vf.report import HarnessError, Livelock
from vf.vworld import base
from vf.vworld import clock as vclock
from vf.vworld import vthreads
from vf.vworld.aworld import site_of_tb
from vf.vworld.base import Req, WS, Call, HandlerError


class VInput:
    """wsgi.input that records every read."""
    def __init__(self, data, req, short_first=None):
        self.data = data
        self.pos = 0
        self.req = req
        self.short_first = short_first       # the first read returns at most this many bytes (a raw socket stream)
        req.taken = 0

    def read(self, n=-1):
        if n is None or n < 0:
            self.req.reads.append(-1)
            out = self.data[self.pos:]
        else:
            self.req.reads.append(n)
            out = self.data[self.pos:self.pos + n]
        if self.short_first is not None:
            out = out[:self.short_first]
            self.short_first = None
        self.pos += len(out)
        self.req.taken += len(out)
        return out


class SyncWorld:
    impl = 'sync'

    def __init__(self, server_kwargs=None, behaviour=None, sync_handlers=True,
                 handlers=('connect', 'message', 'disconnect'), app_kwargs=None,
                 legacy_disconnect=False, websocket=True, trace_funcs=None, shared=None):
        import engineio
        self.shared = shared
        self.clock = shared.clock if shared else vclock.VClock()
        vclock.set_current(self.clock)
        vclock.install()
        vclock.install_secrets()
        self.sched = shared.sched if shared else vthreads.Sched(self.clock)
        if trace_funcs:
            self.sched.trace_funcs = set(trace_funcs)
        self.log = base.QuietLogger()
        kw = dict(async_mode='threading', logger=self.log)
        kw.update(server_kwargs or {})
        pos = kw.pop('_positional', None)
        if pos is not None:
            # options given by position, in the documented order after async_mode
            self.server = engineio.Server(kw.pop('async_mode'), *pos, **kw)
        else:
            self.server = engineio.Server(**kw)
        s = self.sched
        w = self

        class _Thread(vthreads.VThread):
            def __init__(self, *a, **k):
                super().__init__(s, *a, **k)

        class _Queue(vthreads.VQueue):
            def __init__(self, *a, **k):
                super().__init__(s, *a, **k)

        class _Event(vthreads.VEvent):
            def __init__(self, *a, **k):
                super().__init__(s)

        class _WebSocket(VWebSocket):
            def __init__(self, handler, server, **k):
                super().__init__(w, handler)
        self.server._async = {
            'thread': _Thread, 'queue': _Queue, 'queue_empty': _queue.Empty,
            'event': _Event, 'websocket': _WebSocket if websocket else None,
            'sleep': vthreads.make_sleep(s),
        }
        self.app = engineio.WSGIApp(self.server, **(app_kwargs or {}))
        self.beh = behaviour or base.Behaviour()
        self.events = []
        self.reqs = []
        self.wss = []
        self.calls = []
        self.vts = {}
        self._nstep = 0
        self._install_handlers(handlers, legacy_disconnect)

    # ------------------------------------------------------------ handlers
    def _effects(self, effs):
        ret = None
        for e in effs:
            k = e[0]
            if k == 'return':
                ret = e[1]
            elif k == 'raise':
                raise HandlerError(e[1] if len(e) > 1 else 'handler failure')
            elif k == 'raise_type':
                raise TypeError('application bug inside the handler')
            elif k == 'send':
                self.server.send(e[1], e[2])
            elif k == 'disconnect':
                self.server.disconnect(e[1])
            elif k == 'yield':
                self.server.sleep(0)
            elif k == 'sleep':
                self.server.sleep(e[1])
            elif k == 'save':
                self.server.save_session(e[1], e[2])
            else:
                raise HarnessError('unknown effect %r' % (e,))
        return ret

    def _install_handlers(self, handlers, legacy):
        w = self

        def rec(kind, sid, arg):
            w.events.append((kind, sid, arg, w.clock.now, w.nstep))

        def on_connect(sid, environ):
            rec('connect', sid, None)        # the event fires at entry to the handler
            w.sched.point('handler')
            return w._effects(w.beh.connect(sid, environ))

        def on_message(sid, data='<message handler called without its payload>'):      # tolerant signature, as many applications have
            rec('message', sid, data)
            w.sched.point('handler')
            return w._effects(w.beh.message(sid, data))
        if legacy:
            def on_disconnect(sid):
                rec('disconnect', sid, None)
                w.sched.point('handler')
                return w._effects(w.beh.disconnect(sid, None))
        else:
            def on_disconnect(sid, reason):
                rec('disconnect', sid, reason)
                w.sched.point('handler')
                return w._effects(w.beh.disconnect(sid, reason))
        if 'connect' in handlers:
            self.server.on('connect', on_connect)
        if 'message' in handlers:
            self.server.on('message', on_message)
        if 'disconnect' in handlers:
            self.server.on('disconnect', on_disconnect)

    # ------------------------------------------------------------- stepping
    @property
    def nstep(self):
        return self.shared.nstep if self.shared else self._nstep

    @nstep.setter
    def nstep(self, v):
        if self.shared:
            self.shared.nstep = v
        else:
            self._nstep = v

    @property
    def now(self):
        return self.clock.now

    def runnable(self):
        return [vt.id for vt in self.sched.enabled()]

    def step(self, actor=None):
        vclock.set_current(self.clock)
        if actor is None:
            en = self.sched.enabled()
            if not en:
                raise HarnessError('step() with nothing runnable')
            vt = en[0]
        else:
            vt = self.sched.threads[actor]
        self.nstep += 1
        self.sched.run_thread(vt)

    def run(self, cap=6000):
        vclock.set_current(self.clock)
        n = 0
        while True:
            en = self.sched.enabled()
            if not en:
                return n
            self.nstep += 1
            self.sched.run_thread(en[0])
            n += 1
            if n > cap:
                raise Livelock('threaded world does not quiesce within %d steps' % cap)

    def next_deadline(self):
        return self.sched.next_deadline()

    def advance_to(self, t):
        if t < self.clock.now:
            raise HarnessError('time going backwards')
        self.clock.now = t

    def tick(self):
        d = self.next_deadline()
        if d is None:
            return False
        self.advance_to(d)
        self.run()
        return True

    def run_until(self, t):
        self.run()
        while True:
            d = self.next_deadline()
            if d is None or d > t:
                break
            self.advance_to(d)
            self.run()
        if t > self.clock.now:
            self.advance_to(t)
            self.run()

    # -------------------------------------------------------------- gateway
    def _environ(self, method, query, headers, path, host):
        env = {'REQUEST_METHOD': method, 'PATH_INFO': path, 'QUERY_STRING': query,
               'SCRIPT_NAME': '', 'SERVER_NAME': 'h', 'SERVER_PORT': '80',
               'SERVER_PROTOCOL': 'HTTP/1.1', 'REMOTE_ADDR': '127.0.0.1',
               'wsgi.url_scheme': 'http', 'wsgi.version': (1, 0),
               'wsgi.multithread': True, 'wsgi.multiprocess': False,
               'wsgi.run_once': False, 'wsgi.errors': sys.stderr}
        if host is not None:
            env['HTTP_HOST'] = host
        for k, v in (headers or {}).items():
            key = k.upper().replace('-', '_')
            if key in ('CONTENT_TYPE', 'CONTENT_LENGTH'):
                env[key] = v
            else:
                key = 'HTTP_' + key
                env[key] = (env[key] + ',' + v) if key in env else v
        return env

    def http(self, method, query, headers=None, body=b'', declared=None, chunks=None,
             path='/engine.io/', host='h', short_first=None):
        req = Req(len(self.reqs), method, query, dict(headers or {}), body)
        self.reqs.append(req)
        req.t_start = self.clock.now
        req.step_start = self.nstep
        if chunks is not None:
            body = b''.join(chunks)
        env = self._environ(method, query, headers, path, host)
        if method in ('POST', 'PUT') or body or declared is not None:
            env['CONTENT_LENGTH'] = str(len(body) if declared is None else declared)
        env['wsgi.input'] = VInput(body, req, short_first)
        w = self

        def worker():
            calls = []

            def start_response(status, headers, exc_info=None):
                w.sched.point('start_response')
                calls.append((status, headers))
                for cb in getattr(w, 'on_response_start', []):
                    cb(req, status)
            ret = None
            try:
                ret = w.app(env, start_response)
                chunks_out = []
                errs = []
                base.validate_wsgi(calls, ret, errs)
                req.gateway_errors = errs
                if not errs:
                    for c in ret:
                        chunks_out.append(c)
                    req.body = b''.join(chunks_out)
            except vthreads.Unwind:
                raise
            except Exception as e:
                req.exc = {'type': type(e).__name__, 'text': str(e)[:200],
                           'site': site_of_tb(e.__traceback__)}
            finally:
                if calls:
                    status, hdrs = calls[0]
                    try:
                        req.status = int(str(status)[:3])
                    except ValueError:
                        req.status = None
                    req.resp_headers = list(hdrs) if isinstance(hdrs, list) else []
                req.t_done = w.clock.now
                req.step_done = w.nstep
                if not w.sched.killing:
                    req.done = True
                    for cb in getattr(req, 'on_done', []):
                        cb()
        self.vts[req] = self.sched.spawn(worker, 'req%d' % req.rid, 'env')
        return req

    def ws(self, query, headers=None, path='/engine.io/', host='h', upgrade_headers=True, fail_accept=False):
        ws = WS(len(self.wss), query, dict(headers or {}))
        self.wss.append(ws)
        ws.t_start = self.clock.now
        ws.lost = []
        ws.fail_accept = fail_accept      # the peer is gone before the WebSocket handshake can be answered
        hdrs = dict(headers or {})
        if upgrade_headers:
            hdrs.setdefault('Upgrade', 'websocket')
            hdrs.setdefault('Connection', 'Upgrade')
        env = self._environ('GET', query, hdrs, path, host)
        env['verif.ws'] = ws
        w = self

        def worker():
            calls = []

            def start_response(status, headers, exc_info=None):
                w.sched.point('start_response')
                calls.append((status, headers))
            try:
                ret = w.app(env, start_response)
                if not ws.accepted:
                    ws.rejected = True
                    if calls:
                        try:
                            ws.status = int(str(calls[0][0])[:3])
                        except ValueError:
                            pass
                        ws.body = b''.join(ret) if ret else b''
            except vthreads.Unwind:
                raise
            except Exception as e:
                ws.exc = {'type': type(e).__name__, 'text': str(e)[:200],
                          'site': site_of_tb(e.__traceback__)}
            finally:
                if not w.sched.killing:
                    if not ws.server_closed:
                        ws.server_closed = True
                        ws.t_server_closed = w.clock.now
                    ws.done = True
                    for cb in getattr(ws, 'on_event', []):
                        cb()
        self.vts[ws] = self.sched.spawn(worker, 'ws%d' % ws.rid, 'env')
        return ws

    def ws_send(self, ws, data):
        ws.inbox.append(data)

    def ws_close(self, ws):
        ws.client_closed = True

    def ws_vanish(self, ws):
        ws.vanished = True

    def call(self, name, *args):
        c = Call(len(self.calls), name, args)
        self.calls.append(c)
        c.t_start = self.clock.now
        w = self

        def worker():
            try:
                w.sched.point('api')
                if name == 'session_ctx':
                    cm = w.server.session(args[0])
                    w.sched.point('session.made')
                    with cm as s:
                        w.sched.point('session.entered')
                        if len(args) > 1:
                            s.update(args[1])
                        c.result = dict(s)
                        w.sched.point('session.leaving')
                else:
                    c.result = getattr(w.server, name)(*args)
            except vthreads.Unwind:
                raise
            except Exception as e:
                c.exc = {'type': type(e).__name__, 'text': str(e)[:200],
                         'site': site_of_tb(e.__traceback__)}
            finally:
                c.t_done = w.clock.now
                c.step_done = w.nstep
                if not w.sched.killing:
                    c.done = True
        self.vts[c] = self.sched.spawn(worker, 'call%d' % c.cid, 'env')
        return c

    def call_seq(self, name, arglist):
        c = Call(len(self.calls), name + '*%d' % len(arglist), arglist)
        self.calls.append(c)
        w = self

        def worker():
            try:
                w.sched.point('api')
                for a in arglist:
                    getattr(w.server, name)(*a)
            except vthreads.Unwind:
                raise
            except Exception as e:
                c.exc = {'type': type(e).__name__, 'text': str(e)[:200], 'site': site_of_tb(e.__traceback__)}
            finally:
                c.step_done = w.nstep
                if not w.sched.killing:
                    c.done = True
        self.vts[c] = self.sched.spawn(worker, 'callseq%d' % c.cid, 'env')
        return c

    # ----------------------------------------------------------- inspection
    def blocked_site(self, handle):
        vt = self.vts.get(handle)
        if vt is None or vt.done:
            return []
        return self.sched.stack_of(vt)

    def live_sids(self):
        return [sid for sid, s in self.server.sockets.items() if not s.closed]

    def table_sids(self):
        return list(self.server.sockets.keys())

    def transport(self, sid):
        try:
            return self.server.transport(sid)
        except KeyError:
            return None

    def loop_errors(self):
        out = []
        for vt in self.sched.threads:
            if vt.exc is not None and vt.kind == 'lib':
                out.append({'message': 'exception left thread %s' % vt.name,
                            'exception': repr(vt.exc)})
        return out

    def teardown(self):
        vclock.set_current(self.clock)
        self.server.handlers = {}
        if not self.shared:
            self.sched.kill()
        self.vts.clear()


def _ws_release_send(self, ws):
    """The peer starts reading again: writes parked by ws.stall_send complete."""
    ws.stall_send = False
    ws.parked = 0


class VWebSocket:
    """Contract shared by the real sync WebSocket wrappers: wait() returns the
    next frame or None once the peer closed (or we closed), send() raises
    OSError when closed, close() is idempotent."""
    def __init__(self, world, handler):
        self.world = world
        self.handler = handler
        self.peer = None
        self.closed_local = False

    def __call__(self, environ, start_response):
        self.peer = environ['verif.ws']
        self.world.sched.point('ws.accept')
        if getattr(self.peer, 'fail_accept', False):
            # what simple_websocket does when the connection is already gone
            raise RuntimeError('Cannot obtain socket from WSGI environment.')
        self.peer.accepted = True
        self.peer.step_accept = self.world.nstep
        self.peer.conn = self
        for cb in getattr(self.peer, 'on_event', []):
            cb()
        return self.handler(self)

    def wait(self):
        s = self.world.sched
        p = self.peer
        s.point('ws.wait')
        while True:
            if self.closed_local:
                return None
            if p.inbox:
                p.consumed += 1
                data = p.inbox.pop(0)
                return bytes(data) if isinstance(data, (bytes, bytearray)) else data
            if p.client_closed:
                return None
            s.block(lambda: bool(p.inbox) or p.client_closed or self.closed_local, None, 'ws.wait')

    def send(self, message):
        self.world.sched.point('ws.send')
        p = self.peer
        if self.closed_local or p.client_closed:
            raise OSError('websocket is closed')
        st_ = getattr(p, 'stall_send', False)
        if st_:
            # back-pressure: the peer is not reading, the write blocks inside the socket until it does (True: every write;
            # n: the next n writes)
            if st_ is not True:
                p.stall_send = st_ - 1
            p.stalled = getattr(p, 'stalled', 0) + 1
            p.parked = getattr(p, 'parked', 0) + 1
            self.world.sched.block(lambda: getattr(p, 'released', 0) >= p.stalled or not getattr(p, 'parked', 0), None, 'ws.send(stalled)')
        k = getattr(p, 'nsend', 0)
        p.nsend = k + 1
        fa = getattr(p, 'fail_send_at', None)
        if fa is not None and (k == fa or (k > fa and getattr(p, 'fail_send_persist', False))):
            # the write fails (connection reset by the peer) - once, or from this frame on
            raise OSError(104, 'Connection reset by peer')
        if p.vanished:
            p.lost.append(message)
        else:
            p.frames.append((self.world.clock.now, self.world.nstep, message))
            for cb in getattr(p, 'on_event', []):
                cb()

    def close(self):
        self.world.sched.point('ws.close')
        if not self.closed_local and getattr(self.peer, 'fail_close', False):
            self.closed_local = True
            self.peer.server_closed = True
            self.peer.t_server_closed = self.world.clock.now
            for cb in getattr(self.peer, 'on_event', []):
                cb()
            raise OSError(104, 'Connection reset by peer')
        if not self.closed_local:
            self.closed_local = True
            self.peer.server_closed = True
            self.peer.t_server_closed = self.world.clock.now
            for cb in getattr(self.peer, 'on_event', []):
                cb()


SyncWorld.ws_release_send = _ws_release_send
