"""The asyncio server world: real AsyncServer + real ASGIApp on a VLoop."""
import asyncio
import gc
import os
import sys
import traceback

from vf.report import HarnessError, Livelock
from vf.vworld import clock as vclock
from vf.vworld import vloop
from vf.vworld import base
from vf.vworld.base import Req, WS, Call, HandlerError


def site_of_tb(tb):
    """Innermost engineio frames of a traceback, as 'file:function' list."""
    out = []
    for fs in traceback.extract_tb(tb):
        fn = fs.filename.replace('\\', '/')
        if '/engineio/' in fn:
            out.append('%s:%s' % (os.path.basename(fn), fs.name))
    return out[-3:]


def coro_stack(coro):
    """Library frames a suspended coroutine is parked in (outermost first)."""
    out = []
    seen = 0
    while coro is not None and seen < 50:
        seen += 1
        frame = getattr(coro, 'cr_frame', None) or getattr(coro, 'gi_frame', None)
        if frame is not None:
            fn = frame.f_code.co_filename.replace('\\', '/')
            if '/engineio/' in fn:
                out.append('%s:%s' % (os.path.basename(fn), frame.f_code.co_name))
        nxt = getattr(coro, 'cr_await', None)
        if nxt is None:
            nxt = getattr(coro, 'gi_yieldfrom', None)
        if isinstance(nxt, asyncio.Task):
            coro = nxt.get_coro()
        elif isinstance(nxt, asyncio.Future):
            # wait_for/gather style wrappers: follow a task the future waits for if we can
            coro = None
        else:
            coro = nxt
    return out


class AsyncWorld:
    impl = 'async'

    def __init__(self, server_kwargs=None, behaviour=None, sync_handlers=False,
                 handlers=('connect', 'message', 'disconnect'), app_kwargs=None,
                 legacy_disconnect=False, shared=None):
        import engineio
        self.shared = shared
        self.clock = shared.clock if shared else vclock.VClock()
        vclock.set_current(self.clock)
        vclock.install()
        vclock.install_secrets()
        self.loop = shared.loop if shared else vloop.VLoop(self.clock)
        self.log = base.QuietLogger()
        kw = dict(async_mode='asgi', logger=self.log)
        kw.update(server_kwargs or {})
        pos = kw.pop('_positional', None)
        if pos is not None:
            # options given by position, in the documented order after async_mode
            self.server = engineio.AsyncServer(kw.pop('async_mode'), *pos, **kw)
        else:
            self.server = engineio.AsyncServer(**kw)
        self.app = engineio.ASGIApp(self.server, **(app_kwargs or {}))
        self.beh = behaviour or base.Behaviour()
        self.events = []      # (kind, sid, arg, vtime, step)
        self.reqs = []
        self.wss = []
        self.calls = []
        self.tasks = {}       # handle -> task
        self._nstep = 0
        self._never = []
        self.sync_handlers = sync_handlers
        self._install_handlers(handlers, sync_handlers, legacy_disconnect)

    # ------------------------------------------------------------ handlers
    def _install_handlers(self, handlers, sync_handlers, legacy):
        w = self

        async def do_effects(effs):
            ret = None
            for e in effs:
                k = e[0]
                if k == 'return':
                    ret = e[1]
                elif k == 'raise':
                    raise HandlerError(e[1] if len(e) > 1 else 'handler failure')
                elif k == 'raise_type':
                    raise TypeError('application bug inside the handler')
                elif k == 'send':
                    await w.server.send(e[1], e[2])
                elif k == 'disconnect':
                    await w.server.disconnect(e[1])
                elif k == 'yield':
                    await asyncio.sleep(0)
                elif k == 'sleep':
                    await asyncio.sleep(e[1])
                elif k == 'save':
                    await w.server.save_session(e[1], e[2])
                else:
                    raise HarnessError('unknown effect %r' % (e,))
            return ret

        def do_effects_sync(effs):
            ret = None
            for e in effs:
                k = e[0]
                if k == 'return':
                    ret = e[1]
                elif k == 'raise':
                    raise HandlerError(e[1] if len(e) > 1 else 'handler failure')
                elif k == 'raise_type':
                    raise TypeError('application bug inside the handler')
                elif k == 'yield':
                    pass
                else:
                    raise HarnessError('effect %r needs coroutine handlers' % (e,))
            return ret

        def rec(kind, sid, arg):
            w.events.append((kind, sid, arg, w.clock.now, w.nstep))

        if sync_handlers:
            def on_connect(sid, environ):
                rec('connect', sid, None)
                return do_effects_sync(w.beh.connect(sid, environ))

            def on_message(sid, data='<message handler called without its payload>'):      # tolerant signature, as many applications have
                rec('message', sid, data)
                return do_effects_sync(w.beh.message(sid, data))
            if legacy:
                def on_disconnect(sid):
                    rec('disconnect', sid, None)
                    return do_effects_sync(w.beh.disconnect(sid, None))
            else:
                def on_disconnect(sid, reason):
                    rec('disconnect', sid, reason)
                    return do_effects_sync(w.beh.disconnect(sid, reason))
        else:
            async def on_connect(sid, environ):
                rec('connect', sid, None)
                return await do_effects(w.beh.connect(sid, environ))

            async def on_message(sid, data='<message handler called without its payload>'):      # tolerant signature, as many applications have
                rec('message', sid, data)
                return await do_effects(w.beh.message(sid, data))
            if legacy:
                async def on_disconnect(sid):
                    rec('disconnect', sid, None)
                    return await do_effects(w.beh.disconnect(sid, None))
            else:
                async def on_disconnect(sid, reason):
                    rec('disconnect', sid, reason)
                    return await do_effects(w.beh.disconnect(sid, reason))
        if 'connect' in handlers:
            self.server.on('connect', on_connect)
        if 'message' in handlers:
            self.server.on('message', on_message)
        if 'disconnect' in handlers:
            self.server.on('disconnect', on_disconnect)

    # ------------------------------------------------------------- stepping
    @property
    def nstep(self):
        return self.shared.nstep if self.shared else self._nstep

    @nstep.setter
    def nstep(self, v):
        if self.shared:
            self.shared.nstep = v
        else:
            self._nstep = v

    @property
    def now(self):
        return self.clock.now

    def runnable(self):
        return ['L'] if self.loop.has_ready() else []

    def step(self, actor='L'):
        vclock.set_current(self.clock)
        self.nstep += 1
        self.loop.step()

    def run(self, cap=6000):
        """Run to quiescence under the default schedule."""
        vclock.set_current(self.clock)
        n = 0
        while self.loop.has_ready():
            self.nstep += 1
            self.loop.step()
            n += 1
            if n > cap:
                raise Livelock('asyncio world does not quiesce within %d steps' % cap)
        return n

    def next_deadline(self):
        return self.loop.next_deadline()

    def advance_to(self, t):
        if t < self.clock.now:
            raise HarnessError('time going backwards')
        self.clock.now = t
        vclock.set_current(self.clock)
        self.loop.fire_due()

    def tick(self):
        """Advance to the next library deadline and run to quiescence."""
        d = self.next_deadline()
        if d is None:
            return False
        self.advance_to(d)
        self.run()
        return True

    def run_until(self, t):
        """Alternate run / advance until virtual time t (inclusive)."""
        self.run()
        while True:
            d = self.next_deadline()
            if d is None or d > t:
                break
            self.advance_to(d)
            self.run()
        if t > self.clock.now:
            self.advance_to(t)
            self.run()

    # ------------------------------------------------------------- gateway
    def _spawn(self, coro, handle):
        vclock.set_current(self.clock)
        with self.loop.enter():
            t = self.loop.create_task(coro)
        self.tasks[handle] = t
        return t

    def cancel(self, handle):
        """The gateway cancels the task of a request (what ASGI servers do when the client has hung up)."""
        t = self.tasks.get(handle)
        if t is not None and not t.done():
            vclock.set_current(self.clock)
            with self.loop.enter():
                t.cancel()
            handle.cancelled = True

    def ws_release_send(self, ws):
        """The peer starts reading again: writes parked by ws.stall_send complete."""
        ws.stall_send = False
        vclock.set_current(self.clock)
        with self.loop.enter():
            for f in getattr(ws, '_stall_futs', []):
                if not f.done():
                    f.set_result(None)
        ws._stall_futs = []

    def _never_fut(self):
        f = self.loop.create_future()
        self._never.append(f)
        return f

    def http(self, method, query, headers=None, body=b'', declared=None, chunks=None,
             path='/engine.io/', host='h'):
        req = Req(len(self.reqs), method, query, dict(headers or {}), body)
        self.reqs.append(req)
        req.t_start = self.clock.now
        req.step_start = self.nstep
        hdrs = []
        if host is not None:
            hdrs.append((b'host', host.encode()))
        for k, v in (headers or {}).items():
            hdrs.append((k.lower().encode('latin-1'), v.encode('latin-1')))
        if method in ('POST', 'PUT') or body or declared is not None:
            dl = len(body) if declared is None else declared
            hdrs.append((b'content-length', str(dl).encode()))
        scope = {'type': 'http', 'asgi': {'version': '3.0'}, 'http_version': '1.1',
                 'method': method, 'scheme': 'http', 'path': path, 'raw_path': path.encode(),
                 'query_string': query.encode('utf-8'), 'headers': hdrs,
                 'client': ('127.0.0.1', 1), 'server': ('h', 80)}
        if chunks is None:
            pending = [body]
        else:
            pending = list(chunks) or [b'']
        sent = []
        w = self

        async def receive():
            if pending:
                c = pending.pop(0)
                req.reads.append(len(c))
                return {'type': 'http.request', 'body': c, 'more_body': bool(pending)}
            await w._never_fut()

        async def send(ev):
            sent.append(ev)
            if ev.get('type') == 'http.response.start':
                # the moment the answer is handed to the gateway: observers registered by a check look at the server now
                for cb in getattr(w, 'on_response_start', []):
                    cb(req, ev.get('status'))

        async def runner():
            try:
                await w.app(scope, receive, send)
            except asyncio.CancelledError:
                raise
            except Exception as e:
                req.exc = {'type': type(e).__name__, 'text': str(e)[:200],
                           'site': site_of_tb(e.__traceback__)}
            finally:
                req.asgi_events = sent
                errs = []
                if req.exc is None or sent:
                    base.validate_asgi_http(sent, errs)
                req.gateway_errors = errs
                if len(sent) >= 1 and sent[0].get('type') == 'http.response.start':
                    req.status = sent[0].get('status')
                    try:
                        req.resp_headers = [(k.decode('latin-1'), v.decode('latin-1'))
                                            for k, v in sent[0].get('headers', [])]
                    except Exception:
                        req.resp_headers = []
                if len(sent) >= 2:
                    req.body = sent[1].get('body', b'')
                req.t_done = w.clock.now
                req.step_done = w.nstep
                req.done = True
                for cb in getattr(req, 'on_done', []):
                    cb()
        self._spawn(runner(), req)
        return req

    def ws(self, query, headers=None, path='/engine.io/', host='h', upgrade_headers=True, fail_accept=False):
        ws = WS(len(self.wss), query, dict(headers or {}))
        self.wss.append(ws)
        ws.t_start = self.clock.now
        ws.fail_accept = fail_accept      # the peer is gone before the WebSocket handshake can be answered
        hdrs = []
        if host is not None:
            hdrs.append((b'host', host.encode()))
        if upgrade_headers:
            given = {k.lower() for k in (headers or {})}
            hdrs += [h for h in [(b'upgrade', b'websocket'), (b'connection', b'Upgrade')] if h[0].decode() not in given]
        for k, v in (headers or {}).items():
            hdrs.append((k.lower().encode('latin-1'), v.encode('latin-1')))
        scope = {'type': 'websocket', 'asgi': {'version': '3.0'}, 'http_version': '1.1',
                 'scheme': 'ws', 'path': path, 'raw_path': path.encode(),
                 'query_string': query.encode('utf-8'), 'headers': hdrs,
                 'client': ('127.0.0.1', 1), 'server': ('h', 80), 'subprotocols': []}
        sent = []
        state = {'connected': False}
        w = self
        ws._waiter = None

        async def receive():
            if not state['connected']:
                state['connected'] = True
                return {'type': 'websocket.connect'}
            while True:
                if ws.server_closed:
                    return {'type': 'websocket.disconnect', 'code': 1006}
                if ws.inbox:
                    data = ws.inbox.pop(0)
                    ws.consumed += 1
                    if isinstance(data, (bytes, bytearray)):
                        return {'type': 'websocket.receive', 'bytes': bytes(data), 'text': None}
                    return {'type': 'websocket.receive', 'text': data, 'bytes': None}
                if ws.client_closed:
                    return {'type': 'websocket.disconnect', 'code': 1000}
                ws._waiter = w.loop.create_future()
                try:
                    await ws._waiter
                finally:
                    ws._waiter = None

        async def send(ev):
            t = ev.get('type')
            if t == 'websocket.send':
                if ws.server_closed or ws.client_closed:
                    sent.append(dict(ev, _refused=True))
                    raise OSError('websocket is closed')
                st_ = getattr(ws, 'stall_send', False)
                if st_:
                    # back-pressure: the peer is not reading, the gateway's send does not complete until it does (True: every
                    # write parks; n: only the next n writes do - the socket buffer has room again afterwards)
                    if st_ is not True:
                        ws.stall_send = st_ - 1
                    ws.stalled = getattr(ws, 'stalled', 0) + 1
                    f = w.loop.create_future()
                    ws._stall_futs = getattr(ws, '_stall_futs', []) + [f]
                    await f
                k = getattr(ws, 'nsend', 0)
                ws.nsend = k + 1
                fa = getattr(ws, 'fail_send_at', None)
                if fa is not None and (k == fa or (k > fa and getattr(ws, 'fail_send_persist', False))):
                    sent.append(dict(ev, _refused=True))
                    raise ConnectionResetError(104, 'Connection reset by peer')
                sent.append(ev)
                data = ev.get('bytes') if ev.get('bytes') is not None else ev.get('text')
                if ws.vanished:
                    ws.lost.append(data)
                else:
                    ws.frames.append((w.clock.now, w.nstep, data))
                    for cb in getattr(ws, 'on_event', []):
                        cb()
                return
            if t == 'websocket.accept' and ws.fail_accept:
                sent.append(dict(ev, _refused=True))
                raise OSError('client disconnected before the handshake was answered')
            sent.append(ev)
            if t == 'websocket.accept':
                ws.accepted = True
                ws.step_accept = w.nstep
            elif t == 'websocket.close':
                if not ws.accepted:
                    for cb in getattr(w, 'on_response_start', []):
                        cb(ws, 401)
                if getattr(ws, 'fail_close', False) and not ws.server_closed:
                    # the peer is gone: the gateway cannot write the close frame
                    sent[-1] = dict(ev, _refused=True)
                    ws.server_closed = True
                    ws.t_server_closed = w.clock.now
                    if ws._waiter is not None and not ws._waiter.done():
                        ws._waiter.set_result(None)
                    for cb in getattr(ws, 'on_event', []):
                        cb()
                    raise ConnectionResetError(104, 'Connection reset by peer')
                if not ws.accepted:
                    ws.rejected = True
                    ws.body = ev.get('reason')
                ws.server_closed = True
                ws.t_server_closed = w.clock.now
                if ws._waiter is not None and not ws._waiter.done():
                    ws._waiter.set_result(None)
            for cb in getattr(ws, 'on_event', []):
                cb()

        async def runner():
            try:
                await w.app(scope, receive, send)
            except asyncio.CancelledError:
                raise
            except Exception as e:
                ws.exc = {'type': type(e).__name__, 'text': str(e)[:200],
                          'site': site_of_tb(e.__traceback__)}
            finally:
                ws.asgi_events = sent
                errs = []
                base.validate_asgi_ws([e for e in sent if not e.get('_refused')], errs)
                ws.gateway_errors = errs
                if not ws.server_closed:
                    ws.server_closed = True
                    ws.t_server_closed = w.clock.now
                ws.done = True
                for cb in getattr(ws, 'on_event', []):
                    cb()
        ws.lost = []
        self._spawn(runner(), ws)
        return ws

    def ws_send(self, ws, data):
        """The client sends one frame."""
        ws.inbox.append(data)
        self._wake(ws)

    def ws_close(self, ws):
        """The client closes the socket (close frame / FIN)."""
        ws.client_closed = True
        self._wake(ws)

    def ws_vanish(self, ws):
        """The client disappears without a close: nothing more arrives."""
        ws.vanished = True

    def _wake(self, ws):
        f = getattr(ws, '_waiter', None)
        if f is not None and not f.done():
            vclock.set_current(self.clock)
            with self.loop.enter():
                f.set_result(None)

    def call(self, name, *args):
        c = Call(len(self.calls), name, args)
        self.calls.append(c)
        c.t_start = self.clock.now
        w = self

        async def runner():
            try:
                if name == 'session_ctx':
                    cm = w.server.session(args[0])
                    await asyncio.sleep(0)
                    async with cm as s:
                        await asyncio.sleep(0)
                        if len(args) > 1:
                            s.update(args[1])
                        c.result = dict(s)
                        await asyncio.sleep(0)
                else:
                    r = getattr(w.server, name)(*args)
                    if asyncio.iscoroutine(r):
                        r = await r
                    c.result = r
            except asyncio.CancelledError:
                raise
            except Exception as e:
                c.exc = {'type': type(e).__name__, 'text': str(e)[:200],
                         'site': site_of_tb(e.__traceback__)}
            finally:
                c.t_done = w.clock.now
                c.step_done = w.nstep
                c.done = True
        self._spawn(runner(), c)
        return c

    def call_seq(self, name, arglist):
        c = Call(len(self.calls), name + '*%d' % len(arglist), arglist)
        self.calls.append(c)
        w = self

        async def runner():
            try:
                for a in arglist:
                    await getattr(w.server, name)(*a)
            except asyncio.CancelledError:
                raise
            except Exception as e:
                c.exc = {'type': type(e).__name__, 'text': str(e)[:200], 'site': site_of_tb(e.__traceback__)}
            finally:
                c.step_done = w.nstep
                c.done = True
        self._spawn(runner(), c)
        return c

    # ----------------------------------------------------------- inspection
    def blocked_site(self, handle):
        t = self.tasks.get(handle)
        if t is None or t.done():
            return []
        return coro_stack(t.get_coro())

    def live_sids(self):
        """Session ids the server still holds that are not closed."""
        return [sid for sid, s in self.server.sockets.items() if not s.closed]

    def table_sids(self):
        return list(self.server.sockets.keys())

    def transport(self, sid):
        try:
            return self.server.transport(sid)
        except KeyError:
            return None

    def loop_errors(self):
        gc.collect(1)
        return list(self.loop.errors)

    # ------------------------------------------------------------- teardown
    def teardown(self):
        vclock.set_current(self.clock)
        self.server.handlers = {}
        old_hook = sys.unraisablehook
        sys.unraisablehook = lambda *a: None
        try:
            if not self.shared:
                self.loop.teardown()
            self.tasks.clear()
            self._never.clear()
            gc.collect()
        finally:
            sys.unraisablehook = old_hook
