"""Small client-side helpers for server worlds (default-schedule use)."""
import json

from vf.models import codec, jsonp
from vf.vworld.aworld import AsyncWorld
from vf.vworld.sworld import SyncWorld

BASEQ = 'EIO=4&transport=polling'
WSQ = 'EIO=4&transport=websocket'


def make_world(impl, **kw):
    if impl == 'async':
        kw.pop('websocket', None)
        return AsyncWorld(**kw)
    return SyncWorld(**kw)


def split_body(text):
    """Wire text of a polling body -> list of raw packet strings."""
    if text == '':
        return []
    return text.split('\x1e')


def decode_body(text):
    """Polling body -> list of (type, data) by the reference decoder."""
    out = []
    for seg in split_body(text):
        d = codec.ref_decode(seg)
        out.append((d['type'], d['data']))
    return out


def decode_frame(data):
    d = codec.ref_decode(data)
    return (d['type'], d['data'])


def open_polling(w, extra='', headers=None, run=True):
    r = w.http('GET', BASEQ + extra, headers=headers)
    if run:
        w.run()
    return r


def open_data(r, jsonp_mode=False):
    """OPEN packet data of an open response (dict) or None."""
    if not r.done or r.status != 200 or r.body is None:
        return None
    text = r.body.decode('utf-8')
    if jsonp_mode:
        try:
            _, text = jsonp.evaluate(text)
        except jsonp.BadScript:
            return None
    segs = split_body(text)
    if not segs or not segs[0].startswith('0'):
        return None
    try:
        return json.loads(segs[0][1:])
    except ValueError:
        return None


def sid_of(r):
    d = open_data(r)
    return d['sid'] if d else None


def poll(w, sid, run=True, extra='', headers=None):
    r = w.http('GET', BASEQ + '&sid=' + sid + extra, headers=headers)
    if run:
        w.run()
    return r


def post(w, sid, body, run=True, extra='', declared=None, headers=None, chunks=None):
    if isinstance(body, str):
        body = body.encode('utf-8')
    r = w.http('POST', BASEQ + '&sid=' + sid + extra, body=body, declared=declared,
               headers=headers, chunks=chunks)
    if run:
        w.run()
    return r


def ws_upgrade(w, sid, run=True, headers=None):
    s = w.ws(WSQ + '&sid=' + sid, headers=headers)
    if run:
        w.run()
    return s


def ws_open(w, run=True, headers=None, extra=''):
    s = w.ws(WSQ + extra, headers=headers)
    if run:
        w.run()
    return s


def do_upgrade(w, sid):
    """Full probe handshake; returns the ws handle."""
    s = ws_upgrade(w, sid)
    if not s.accepted:
        return s
    w.ws_send(s, '2probe')
    w.run()
    w.ws_send(s, '5')
    w.run()
    return s


def ws_frames(s):
    return [f[2] for f in s.frames]


def keepalive(w, sid, t_end, polls=None, lag=0.0):
    """A healthy polling client until virtual time t_end: it always has a poll outstanding and answers every PING with a PONG
    that reaches the server `lag` seconds later (at once by default). Returns False if the session ended meanwhile."""
    due = []
    g = None
    while w.now < t_end:
        if g is None:
            g = poll(w, sid, run=False)
            if polls is not None:
                polls.append(g)
            w.run()
        if g.done:
            if g.status != 200:
                return False
            pk = decode_body(g.text())
            if any(t == 1 for t, d in pk):
                return False
            if any(t == 2 for t, d in pk):
                if lag:
                    due.append(w.now + lag)
                else:
                    post(w, sid, '3')
            g = None
            continue
        if due and due[0] <= w.now + 1e-12:
            due.pop(0)
            post(w, sid, '3')
            continue
        d = w.next_deadline()
        w.run_until(min(x for x in (d, due[0] if due else None, t_end) if x is not None))
    return True
