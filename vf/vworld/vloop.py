"""A hand-stepped asyncio event loop with virtual time.

One step = one ready callback, in exactly the FIFO order the stock loop
would use. Timers fire only when the owner advances the clock. The loop's
own ready queue is never permuted (DESIGN S1).
"""
import asyncio
import heapq
from asyncio import events

from vf.report import HarnessError


class VLoop(asyncio.BaseEventLoop):
    _vrunning = False

    def __init__(self, clock):
        super().__init__()
        self.vclock = clock
        self.errors = []          # contexts passed to the exception handler
        self._vrunning = False
        self.steps = 0

    # --- BaseEventLoop plumbing -------------------------------------------
    def time(self):
        return self.vclock.now

    def _process_events(self, event_list):
        pass

    def _write_to_self(self):
        pass

    def is_running(self):
        return self._vrunning

    def call_exception_handler(self, context):
        c = dict(context)
        self.errors.append({'message': c.get('message'),
                            'exception': repr(c.get('exception'))})

    def default_exception_handler(self, context):
        self.call_exception_handler(context)

    # --- stepping -------------------------------------------------------------
    def ready_count(self):
        return sum(1 for h in self._ready if not h._cancelled)

    def has_ready(self):
        while self._ready and self._ready[0]._cancelled:
            self._ready.popleft()
        return bool(self._ready)

    def step(self):
        """Run exactly one ready callback."""
        if not self.has_ready():
            raise HarnessError('step() on an idle loop')
        handle = self._ready.popleft()
        old = events._get_running_loop()
        events._set_running_loop(self)
        self._vrunning = True
        try:
            handle._run()
        finally:
            self._vrunning = False
            events._set_running_loop(old)
        self.steps += 1
        handle = None

    def next_deadline(self):
        while self._scheduled and self._scheduled[0]._cancelled:
            h = heapq.heappop(self._scheduled)
            h._scheduled = False
            self._timer_cancelled_count = max(0, self._timer_cancelled_count - 1)
        if not self._scheduled:
            return None
        return self._scheduled[0]._when

    def due_count(self, t):
        """Number of live timers that fall due at or before t."""
        return len([h for h in self._scheduled if not h._cancelled and h._when <= t])

    def fire_due(self):
        """Move every timer due at the current instant to the ready queue,
        in the heap order the stock loop uses."""
        n = 0
        now = self.vclock.now
        while self._scheduled:
            h = self._scheduled[0]
            if h._cancelled:
                heapq.heappop(self._scheduled)
                h._scheduled = False
                self._timer_cancelled_count = max(0, self._timer_cancelled_count - 1)
                continue
            if h._when > now:
                break
            heapq.heappop(self._scheduled)
            h._scheduled = False
            self._ready.append(h)
            n += 1
        return n

    def enter(self):
        """Make this loop the running loop for code executed by the harness
        itself (creating tasks, setting futures)."""
        return _Running(self)

    # --- teardown --------------------------------------------------------------
    def teardown(self, cap=2000):
        self.survivors = 0
        with self.enter():
            for _ in range(50):
                tasks = [t for t in asyncio.all_tasks(self) if not t.done()]
                if not tasks and not self.has_ready():
                    break
                for t in tasks:
                    t.cancel()
                n = 0
                while self.has_ready():
                    self.step()
                    n += 1
                    if n > cap:
                        raise HarnessError('loop teardown does not quiesce')
            else:
                # tasks of the code under test that swallow every cancellation: left behind, and reported by the explorer
                self.survivors = len([t for t in asyncio.all_tasks(self) if not t.done()])
        self._scheduled.clear()
        self._ready.clear()
        try:
            self.close()
        except Exception:
            pass


class _Running:
    def __init__(self, loop):
        self.loop = loop

    def __enter__(self):
        self.old = events._get_running_loop()
        events._set_running_loop(self.loop)
        return self.loop

    def __exit__(self, *a):
        events._set_running_loop(self.old)
