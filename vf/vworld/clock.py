"""Virtual clock and the module-global `time` shim.

engineio reads the wall clock only as `time.time()` through the module
global `time` of socket.py, async_socket.py, base_client.py and client.py.
install() rebinds those globals to a shim that reads the clock of whichever
world is currently executing.
"""

EPOCH = 1_000_000_000.0     # exact in binary floating point together with multiples of 1/8


class TokenSource:
    """Deterministic stand-in for secrets.token_bytes inside base_server."""
    def __init__(self):
        self.n = 0

    def token_bytes(self, n=32):
        self.n += 1
        return (self.n.to_bytes(4, 'big') * ((n + 3) // 4))[:n]


class VClock:
    """Per-world context: virtual time and the deterministic id source."""
    def __init__(self):
        self.now = 0.0
        self.tokens = TokenSource()


_current = VClock()


def set_current(clock):
    global _current
    _current = clock


def current():
    return _current


class TimeShim:
    """Stands in for the `time` module inside engineio modules."""
    def time(self):
        return EPOCH + _current.now

    def monotonic(self):
        return _current.now

    def sleep(self, seconds):
        raise RuntimeError('real time.sleep() reached inside a virtual world')


SHIM = TimeShim()
_installed = False


def install():
    global _installed
    if _installed:
        return
    import importlib
    for name in ('engineio.socket', 'engineio.async_socket', 'engineio.base_client',
                 'engineio.client', 'engineio.async_client'):
        try:
            mod = importlib.import_module(name)
        except Exception:
            continue
        if hasattr(mod, 'time'):
            mod.time = SHIM
    _installed = True
    # everything imported so far is immortal for our purposes: keep it out of
    # the per-world garbage collections
    import gc
    gc.collect()
    gc.freeze()


class SecretsShim:
    def token_bytes(self, n=32):
        return _current.tokens.token_bytes(n)


SECRETS = SecretsShim()


def install_secrets():
    import engineio.base_server as bs
    if getattr(bs, 'secrets', None) is not SECRETS:
        bs.secrets = SECRETS
