"""Shared pieces of the server worlds: handles, behaviours, validators."""
import urllib.parse

from vf.report import HarnessError


class QuietLogger:
    """Logger stand-in that keeps error-level records only."""
    level = 40

    def __init__(self):
        self.records = []

    def _rec(self, lvl, msg, args):
        try:
            text = msg % args if args else msg
        except Exception:
            text = '%s %r' % (msg, args)
        self.records.append((lvl, text))

    def debug(self, *a, **k):
        pass

    def info(self, *a, **k):
        pass

    def warning(self, msg, *a, **k):
        pass

    def error(self, msg, *a, **k):
        self._rec('error', msg, a)

    def exception(self, msg, *a, **k):
        import sys
        e = sys.exc_info()[1]
        self._rec('exception', str(msg) + ' :: ' + repr(e), a)

    def setLevel(self, *a):
        pass

    def addHandler(self, *a):
        pass


class Behaviour:
    """What the application handlers do, as lists of effects.

    Effects: ('return', v) ('raise', text) ('send', sid, data)
    ('disconnect', sid_or_None) ('yield',) ('save', sid, obj)."""
    def connect(self, sid, environ):
        return []

    def message(self, sid, data):
        return []

    def disconnect(self, sid, reason):
        return []


class Scripted(Behaviour):
    """Behaviour given by per-event lists; `connect` may be a list of lists
    consumed one per connect event (last one repeats)."""
    def __init__(self, connect=None, message=None, disconnect=None, connect_seq=None):
        self._c = connect or []
        self._cs = list(connect_seq) if connect_seq else None
        self._m = message or []
        self._d = disconnect or []
        self.nconnect = 0

    def connect(self, sid, environ):
        self.nconnect += 1
        if self._cs:
            return self._cs[min(self.nconnect - 1, len(self._cs) - 1)]
        return self._c

    def message(self, sid, data):
        return [tuple(s if s != '$sid' else sid for s in e) for e in self._m]

    def disconnect(self, sid, reason):
        return [tuple(s if s != '$sid' else sid for s in e) for e in self._d]


class HandlerError(RuntimeError):
    """Raised on purpose by application handlers of the harness."""


class Req:
    """One HTTP request travelling through the gateway."""
    def __init__(self, rid, method, query, headers, body):
        self.rid = rid
        self.method = method
        self.query = query
        self.headers = headers
        self.req_body = body
        self.done = False
        self.status = None
        self.resp_headers = None
        self.body = None
        self.exc = None
        self.gateway_errors = []
        self.t_start = None
        self.t_done = None
        self.reads = []           # sizes passed to wsgi.input.read / body consumption
        self.step_start = None
        self.step_done = None

    def header(self, name):
        for k, v in self.resp_headers or []:
            if k.lower() == name.lower():
                return v
        return None

    def headers_all(self, name):
        return [v for k, v in self.resp_headers or [] if k.lower() == name.lower()]

    def text(self):
        return (self.body or b'').decode('utf-8', 'replace')

    def brief(self):
        return {'method': self.method, 'query': self.query, 'done': self.done,
                'status': self.status, 'body': self.body, 'exc': self.exc}


class WS:
    """Client end of one WebSocket."""
    def __init__(self, rid, query, headers):
        self.rid = rid
        self.query = query
        self.headers = headers
        self.accepted = False
        self.rejected = False
        self.server_closed = False    # server sent close / handler returned
        self.client_closed = False
        self.vanished = False
        self.frames = []              # (vtime, step, data) frames sent by the server
        self.inbox = []               # frames the client sent, not yet consumed
        self.consumed = 0             # number of client frames consumed by the server
        self.done = False             # the gateway call for this socket returned
        self.exc = None
        self.gateway_errors = []
        self.status = None            # for rejected upgrades answered over HTTP-ish path
        self.body = None
        self.t_start = None
        self.step_accept = None

    def brief(self):
        return {'accepted': self.accepted, 'server_closed': self.server_closed,
                'done': self.done, 'exc': self.exc, 'frames': [f[2] for f in self.frames]}


class Call:
    """One application-facing API call (send, disconnect, ...)."""
    def __init__(self, cid, name, args):
        self.cid = cid
        self.name = name
        self.args = args
        self.done = False
        self.result = None
        self.exc = None
        self.t_start = None
        self.t_done = None
        self.step_done = None


def qs(**kw):
    return urllib.parse.urlencode(kw)


# ------------------------------------------------------------ validators

def validate_wsgi(calls, body, errors):
    """calls: list of (status, headers) given to start_response."""
    if len(calls) != 1:
        errors.append('start_response called %d times' % len(calls))
        return
    status, headers = calls[0]
    if not isinstance(status, str) or len(status) < 5 or not status[:3].isdigit() or status[3] != ' ':
        errors.append('bad status line %r' % (status,))
    if not isinstance(headers, list):
        errors.append('headers is %s, not a list' % type(headers).__name__)
    else:
        for h in headers:
            if not (isinstance(h, tuple) and len(h) == 2 and isinstance(h[0], str) and isinstance(h[1], str)):
                errors.append('bad header %r' % (h,))
                break
    if isinstance(body, (bytes, str)) or body is None:
        errors.append('body is %s, not an iterable of bytes' % type(body).__name__)
    else:
        try:
            for chunk in body:
                if not isinstance(chunk, bytes):
                    errors.append('body chunk is %s' % type(chunk).__name__)
                    break
        except TypeError:
            errors.append('body not iterable')


def validate_asgi_http(events, errors):
    types = [e.get('type') for e in events]
    if types != ['http.response.start', 'http.response.body']:
        errors.append('ASGI http events %r' % types)
        return
    st = events[0]
    if not isinstance(st.get('status'), int):
        errors.append('status %r' % (st.get('status'),))
    for h in st.get('headers', []):
        if not (isinstance(h, (tuple, list)) and len(h) == 2 and isinstance(h[0], bytes) and isinstance(h[1], bytes)):
            errors.append('bad header %r' % (h,))
            break
    if not isinstance(events[1].get('body', b''), bytes):
        errors.append('body is %s' % type(events[1].get('body')).__name__)
    if events[1].get('more_body'):
        errors.append('more_body left open')


def validate_asgi_ws(events, errors):
    """Legal orders: close  |  accept (send)* [close]."""
    types = [e.get('type') for e in events]
    for t in types:
        if not t.startswith('websocket.'):
            errors.append('non-websocket event %r on a websocket scope' % t)
            return
    if not types:
        return
    if types[0] == 'websocket.close':
        if len(types) > 1:
            errors.append('events after rejecting close: %r' % types)
        return
    if types[0] != 'websocket.accept':
        errors.append('first websocket event is %r' % types[0])
        return
    seen_close = False
    for t in types[1:]:
        if seen_close:
            errors.append('event %r after websocket.close' % t)
            return
        if t == 'websocket.close':
            seen_close = True
        elif t == 'websocket.accept':
            errors.append('second websocket.accept')
            return
        elif t != 'websocket.send':
            errors.append('unexpected event %r' % t)
            return
