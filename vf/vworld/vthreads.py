"""Baton-scheduled OS threads: one runs at a time, the scheduler decides which.

Every blocking or synchronising primitive the threaded server / client uses
is implemented here on top of Sched.point() / Sched.block(); between two
scheduling points a thread runs atomically. Blocked threads mirror the
condition-variable loops of what they replace: a thread is enabled when its
predicate holds *at the moment it is scheduled* (it re-tests on wake-up).
"""
import collections
import os
import queue as _queue
import sys
import threading

from vf.report import HarnessError, Livelock


class Unwind(SystemExit):
    """Thrown into parked threads at the end of an execution."""


class VT:
    __slots__ = ('id', 'name', 'thread', 'sem', 'done', 'waiting', 'exc', 'kind',
                 'result', 'tracing', 'nyields', 'stuck')

    def __init__(self, id, name, kind):
        self.stuck = False
        self.id = id
        self.name = name
        self.kind = kind
        self.sem = threading.Semaphore(0)
        self.done = False
        self.waiting = None     # (pred, deadline) while blocked
        self.exc = None
        self.result = None
        self.thread = None
        self.tracing = False
        self.nyields = 0


STUCK_AFTER = 10      # wall-clock seconds a thread may run without reaching a scheduling point


class Sched:
    def __init__(self, clock):
        self.clock = clock
        self.threads = []
        self.current = None
        self.main_sem = threading.Semaphore(0)
        self.killing = False
        self.by_ident = {}
        self.nsteps = 0
        self.trace_funcs = None      # set of code names for line-granular preemption
        self.last_point = None

    # ----------------------------------------------------------- thread side
    def me(self):
        return self.by_ident.get(threading.get_ident())

    def _yield(self, vt):
        vt.nyields += 1
        self.main_sem.release()
        vt.sem.acquire()
        if self.killing:
            raise Unwind()

    def point(self, kind=''):
        """A scheduling point that does not block."""
        vt = self.me()
        if vt is None:
            return
        self.last_point = kind
        self._yield(vt)

    def block(self, pred, timeout=None, kind=''):
        """Block until pred() holds or the timeout elapses.
        Returns True when pred() holds on wake-up, False on timeout."""
        vt = self.me()
        if vt is None:
            if pred():
                return True
            raise HarnessError('blocking primitive used outside a virtual thread (%s)' % kind)
        deadline = None if timeout is None else self.clock.now + max(0.0, float(timeout))
        while True:
            vt.waiting = (pred, deadline)
            self.last_point = kind
            try:
                self._yield(vt)
            finally:
                vt.waiting = None
            if pred():
                return True
            if deadline is not None and self.clock.now >= deadline:
                return False
            # woken although neither holds any more (another thread consumed
            # what we were waiting for): wait again, like a condition loop

    # -------------------------------------------------------- scheduler side
    def spawn(self, fn, name='t', kind='lib'):
        vt = VT(len(self.threads), name, kind)
        self.threads.append(vt)

        def boot():
            self.by_ident[threading.get_ident()] = vt
            vt.sem.acquire()
            try:
                if self.killing:
                    raise Unwind()
                if self.trace_funcs:
                    self._install_trace(vt)
                vt.result = fn()
            except Unwind:
                pass
            except BaseException as e:      # noqa: B902 - recorded, not swallowed
                vt.exc = e
            finally:
                sys.settrace(None)
                vt.done = True
                self.by_ident.pop(threading.get_ident(), None)
                self.main_sem.release()
        th = threading.Thread(target=boot, name='vt-%d-%s' % (vt.id, name), daemon=True)
        vt.thread = th
        th.start()
        return vt

    def _is_enabled(self, vt):
        if vt.done or getattr(vt, 'stuck', False):
            return False
        w = vt.waiting
        if w is None:
            return True
        pred, deadline = w
        if pred():
            return True
        return deadline is not None and self.clock.now >= deadline

    def enabled(self):
        """Enabled threads: the current one first (if still enabled), then
        ascending ids."""
        out = [vt for vt in self.threads if self._is_enabled(vt)]
        cur = self.current
        if cur is not None and cur in out:
            out.remove(cur)
            out.insert(0, cur)
        return out

    def run_thread(self, vt):
        if vt.done:
            raise HarnessError('scheduling a finished thread')
        self.current = vt
        self.nsteps += 1
        vt.sem.release()
        if not self.main_sem.acquire(timeout=STUCK_AFTER):
            # the thread is blocked outside the scheduler (a real lock or a real blocking call inside the code under test):
            # in the real program this is a thread that never comes back - a deadlock
            vt.stuck = True
            self.stuck = True
            raise Livelock('thread %s did not reach a scheduling point within %d s of wall-clock time: it is blocked on a '
                           'real lock or blocking call (deadlock); parked in %s' % (vt.name, STUCK_AFTER, self.stack_of(vt)[-3:]))

    def next_deadline(self):
        best = None
        for vt in self.threads:
            if vt.done or vt.waiting is None:
                continue
            pred, deadline = vt.waiting
            if deadline is None or pred():
                continue
            if best is None or deadline < best:
                best = deadline
        return best

    def due_count(self, t):
        """Number of threads whose timed wait expires at or before t."""
        n = 0
        for vt in self.threads:
            if vt.done or vt.waiting is None:
                continue
            pred, deadline = vt.waiting
            if deadline is not None and deadline <= t and not pred():
                n += 1
        return n

    def blocked(self):
        return [vt for vt in self.threads if not vt.done and vt.waiting is not None
                and not self._is_enabled(vt)]

    def kill(self, cap=400):
        """Unwind every thread that is still alive."""
        self.killing = True
        for vt in self.threads:
            n = 0
            while not vt.done and not getattr(vt, 'stuck', False):
                vt.sem.release()
                if not self.main_sem.acquire(timeout=STUCK_AFTER):
                    vt.stuck = True          # cannot be unwound: left behind as a daemon thread
                    break
                n += 1
                if n > cap:
                    raise HarnessError('thread %s does not unwind' % vt.name)
        for vt in self.threads:
            if vt.thread is not None and not getattr(vt, 'stuck', False):
                vt.thread.join(5)
        self.threads = []
        self.by_ident.clear()

    def stack_of(self, vt):
        """Library frames a parked thread sits in (outermost first)."""
        if vt.thread is None or vt.done:
            return []
        fr = sys._current_frames().get(vt.thread.ident)
        out = []
        while fr is not None:
            fn = fr.f_code.co_filename.replace('\\', '/')
            if '/engineio/' in fn:
                out.append('%s:%s' % (os.path.basename(fn), fr.f_code.co_name))
            fr = fr.f_back
        out.reverse()
        return out

    # ---------------------------------------------- line-granular preemption
    def _install_trace(self, vt):
        names = self.trace_funcs
        sched = self

        def local(frame, event, arg):
            if event == 'line' and not sched.killing:
                sched.last_point = 'line:%s:%d' % (frame.f_code.co_name, frame.f_lineno)
                sched._yield(vt)
            return local

        def glob(frame, event, arg):
            if event == 'call' and frame.f_code.co_name in names and \
                    '/engineio/' in frame.f_code.co_filename.replace('\\', '/'):
                return local
            return None
        sys.settrace(glob)


# ------------------------------------------------------------- primitives

class VQueue:
    def __init__(self, sched, maxsize=0):
        self._s = sched
        self.maxsize = maxsize or 0
        self.items = collections.deque()
        self.queue = self.items          # queue.Queue keeps its items in a deque of this name; code that peeks finds them here
        self.unfinished = 0
        self.Empty = _queue.Empty

    def put(self, item, block=True, timeout=None):
        self._s.point('queue.put')
        if self.maxsize > 0 and len(self.items) >= self.maxsize:
            # a bounded queue: the producer waits for room, as queue.Queue does
            if not block:
                raise _queue.Full()
            if not self._s.block(lambda: len(self.items) < self.maxsize, timeout, 'queue.put(full)'):
                raise _queue.Full()
        self.items.append(item)
        self.unfinished += 1

    def put_nowait(self, item):
        self.put(item, block=False)

    def get(self, block=True, timeout=None):
        self._s.point('queue.get')
        if not self.items:
            if not block:
                raise _queue.Empty()
            if not self._s.block(lambda: bool(self.items), timeout, 'queue.get'):
                raise _queue.Empty()
        return self.items.popleft()

    def get_nowait(self):
        return self.get(block=False)

    def task_done(self):
        self._s.point('queue.task_done')
        if self.unfinished <= 0:
            raise ValueError('task_done() called too many times')
        self.unfinished -= 1

    def join(self):
        self._s.point('queue.join')
        if self.unfinished:
            self._s.block(lambda: self.unfinished == 0, None, 'queue.join')

    def empty(self):
        self._s.point('queue.empty')         # a real queue.Queue takes its mutex here: the answer may be stale by the next step
        return not self.items

    def qsize(self):
        self._s.point('queue.qsize')
        return len(self.items)


class VEvent:
    def __init__(self, sched):
        self._s = sched
        self.flag = False

    def set(self):
        self._s.point('event.set')
        self.flag = True

    def clear(self):
        self.flag = False

    def is_set(self):
        return self.flag

    def wait(self, timeout=None):
        self._s.point('event.wait')
        if self.flag:
            return True
        return self._s.block(lambda: self.flag, timeout, 'event.wait')


class VThread:
    """threading.Thread look-alike."""
    def __init__(self, sched, target=None, args=(), kwargs=None, daemon=None, name=None):
        self._s = sched
        self._target = target
        self._args = args
        self._kwargs = kwargs or {}
        self.vt = None
        self.daemon = True

    def start(self):
        t, a, k = self._target, self._args, self._kwargs
        self.vt = self._s.spawn(lambda: t(*a, **k), getattr(t, '__name__', 'bg'), 'lib')
        self._s.point('thread.start')

    def join(self, timeout=None):
        self._s.point('thread.join')
        if self.vt is None:
            raise RuntimeError('cannot join thread before it is started')
        if not self.vt.done:
            self._s.block(lambda: self.vt.done, timeout, 'thread.join')

    def is_alive(self):
        return self.vt is not None and not self.vt.done


def make_sleep(sched):
    def vsleep(seconds=0):
        sched.block(lambda: False, seconds, 'sleep')
    return vsleep
