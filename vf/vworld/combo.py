"""A real client talking to a real server inside one virtual world.

Shared: one virtual clock, one baton scheduler (threads of the threaded
client / server) and one hand-stepped asyncio loop (tasks of the asyncio
client / server). The loop is one more actor of the global scheduler. The
client's transport fakes hand each request / socket to the server world's
gateway (WSGI or ASGI), so both protocol implementations are real and only
the network in between is virtual.
"""
import asyncio
import heapq
import urllib.parse

from vf.report import HarnessError, Livelock
from vf.vworld import aworld, sworld, cworld, vloop, vthreads
from vf.vworld import clock as vclock


class Shared:
    def __init__(self):
        self.clock = vclock.VClock()
        self.sched = vthreads.Sched(self.clock)
        self.loop = vloop.VLoop(self.clock)
        self.nstep = 0


def split_url(url):
    u = urllib.parse.urlparse(url)
    return u.path, u.query


# ----------------------------------------------------- bridge for AsyncClient

class BridgeAioWS:
    """Client end of a WebSocket whose server end lives in the server world. Frames travel through the combined
    world's delay line (net_send): with latency 0 that is an immediate hand-over."""
    def __init__(self, combo, ws):
        self.c = combo
        self.ws = ws
        self.cursor = 0
        self.avail = 0              # frames that have reached the client
        self.peer_closed = False    # the server's close has reached the client
        self.closed = False
        self._fut = None
        self._told = (0, False)
        ws.on_event = getattr(ws, 'on_event', []) + [self._on_event]
        self._on_event()

    def _on_event(self):
        n, closed = len(self.ws.frames), bool(self.ws.server_closed)
        if (n, closed) == self._told:
            return
        self._told = (n, closed)
        self.c.net_send(lambda: self._arrive(n, closed))

    def _arrive(self, n, closed):
        self.avail = max(self.avail, n)
        self.peer_closed = self.peer_closed or closed
        self._wake()

    def _wake(self):
        f = self._fut
        if f is not None and not f.done():
            with self.c.loop.enter():
                f.set_result(None)

    async def send_str(self, data):
        await asyncio.sleep(0)
        if self.closed or self.peer_closed:
            raise ConnectionResetError('Cannot write to closing transport')
        self.c.net_send(lambda: self.c.sw.ws_send(self.ws, data))

    async def send_bytes(self, data):
        await asyncio.sleep(0)
        if self.closed or self.peer_closed:
            raise ConnectionResetError('Cannot write to closing transport')
        data = bytes(data)
        self.c.net_send(lambda: self.c.sw.ws_send(self.ws, data))

    async def receive(self, timeout=None):
        import aiohttp
        while True:
            if self.closed:
                return aiohttp.WSMessage(aiohttp.WSMsgType.CLOSED, None, None)
            if self.cursor < self.avail:
                data = self.ws.frames[self.cursor][2]
                self.cursor += 1
                if isinstance(data, (bytes, bytearray)):
                    return aiohttp.WSMessage(aiohttp.WSMsgType.BINARY, bytes(data), None)
                return aiohttp.WSMessage(aiohttp.WSMsgType.TEXT, data, None)
            if self.peer_closed:
                self.closed = True
                return aiohttp.WSMessage(aiohttp.WSMsgType.CLOSE, 1000, '')
            self._fut = self.c.loop.create_future()
            try:
                await self._fut
            finally:
                self._fut = None

    async def close(self, *a, **k):
        await asyncio.sleep(0)
        if not self.closed:
            self.closed = True
            self.c.net_send(lambda: self.c.sw.ws_close(self.ws))
            self._wake()
        return True


class BridgeAioSession:
    def __init__(self, combo):
        self.c = combo
        self.closed = False
        self.cookie_jar = cworld.FakeCookieJar()

    async def _request(self, method, url, headers=None, data=None, timeout=None, **kw):
        import aiohttp
        await asyncio.sleep(0)
        path, query = split_url(url)
        body = data.encode('utf-8') if isinstance(data, str) else (data or b'')
        fut = self.c.loop.create_future()
        box = {}

        def deliver():
            if not fut.done():
                with self.c.loop.enter():
                    fut.set_result(None)

        def arrive():
            req = box['req'] = self.c.sw.http(method, query, headers=dict(headers or {}), body=body, path=path)
            self.c.log_request(method, url, body)
            req.on_done = [lambda: self.c.net_send(deliver)]
            if req.done:
                self.c.net_send(deliver)
        self.c.net_send(arrive)
        total = getattr(timeout, 'total', timeout)
        await asyncio.wait_for(fut, total)
        req = box['req']
        if req.exc or req.status is None:
            return cworld.FakeAioResponse(500, b'Internal Server Error', 'text/plain')
        return cworld.FakeAioResponse(req.status, req.body or b'', req.header('Content-Type') or 'text/plain')

    def get(self, url, **kw):
        return self._request('GET', url, **kw)

    def post(self, url, **kw):
        return self._request('POST', url, **kw)

    async def ws_connect(self, url, **opts):
        import aiohttp
        await asyncio.sleep(0)
        path, query = split_url(url)
        fut = self.c.loop.create_future()
        box = {}

        def deliver():
            if not fut.done():
                with self.c.loop.enter():
                    fut.set_result(None)

        def arrive():
            ws = box['ws'] = self.c.sw.ws(query, headers=dict(opts.get('headers') or {}), path=path)
            box['bridge'] = BridgeAioWS(self.c, ws)
            told = []

            def ev():
                if (ws.accepted or ws.rejected or ws.done) and not told:
                    told.append(1)
                    self.c.net_send(deliver)
            ws.on_event = ws.on_event + [ev]
            ev()
        self.c.net_send(arrive)
        try:
            await asyncio.wait_for(fut, opts.get('timeout'))
        except asyncio.TimeoutError:
            raise aiohttp.client_exceptions.ServerTimeoutError()
        if not box['ws'].accepted:
            raise aiohttp.client_exceptions.WSServerHandshakeError(None, (), status=400, message='Invalid response status')
        return box['bridge']

    async def close(self):
        self.closed = True


# ---------------------------------------------------------- bridge for Client

class BridgeSyncWS:
    def __init__(self, combo, ws, timeout):
        self.c = combo
        self.ws = ws
        self.cursor = 0
        self.avail = 0
        self.peer_closed = False
        self.connected = True
        self.timeout = timeout
        self._told = (0, False)
        ws.on_event = getattr(ws, 'on_event', []) + [self._on_event]
        self._on_event()

    def _on_event(self):
        n, closed = len(self.ws.frames), bool(self.ws.server_closed)
        if (n, closed) == self._told:
            return
        self._told = (n, closed)
        self.c.net_send(lambda: self._arrive(n, closed))

    def _arrive(self, n, closed):
        self.avail = max(self.avail, n)
        self.peer_closed = self.peer_closed or closed

    def settimeout(self, t):
        self.timeout = t

    def send(self, data):
        self.c.sched.point('cws.send')
        if not self.connected or self.peer_closed:
            raise cworld.WSClosed('socket is already closed.')
        self.c.net_send(lambda: self.c.sw.ws_send(self.ws, data))

    def send_binary(self, data):
        self.c.sched.point('cws.send')
        if not self.connected or self.peer_closed:
            raise cworld.WSClosed('socket is already closed.')
        data = bytes(data)
        self.c.net_send(lambda: self.c.sw.ws_send(self.ws, data))

    def recv(self):
        s = self.c.sched
        s.point('cws.recv')
        while True:
            if not self.connected:
                raise cworld.WSClosed('socket is already closed.')
            if self.cursor < self.avail:
                data = self.ws.frames[self.cursor][2]
                self.cursor += 1
                return data
            if self.peer_closed:
                self.connected = False
                raise cworld.WSClosed('Connection to remote host was lost.')
            ok = s.block(lambda: self.cursor < self.avail or self.peer_closed or not self.connected,
                         self.timeout, 'cws.recv')
            if not ok:
                raise cworld.WSTimeout('timed out')

    def close(self, *a, **k):
        self.c.sched.point('cws.close')
        if self.connected:
            self.connected = False
            self.c.net_send(lambda: self.c.sw.ws_close(self.ws))


class BridgeSyncSession:
    def __init__(self, combo):
        self.c = combo
        self.cookies = []
        self.auth = None
        self.cert = None
        self.proxies = {}
        self.verify = True

    def request(self, method, url, headers=None, data=None, timeout=None, **kw):
        self.c.sched.point('http.request')
        path, query = split_url(url)
        body = data.encode('utf-8') if isinstance(data, str) else (data or b'')
        box = {}

        def deliver():
            box['ready'] = True

        def arrive():
            req = box['req'] = self.c.sw.http(method, query, headers=dict(headers or {}), body=body, path=path)
            self.c.log_request(method, url, body)
            req.on_done = [lambda: self.c.net_send(deliver)]
            if req.done:
                self.c.net_send(deliver)
        self.c.net_send(arrive)
        ok = self.c.sched.block(lambda: box.get('ready', False), timeout, 'http.wait')
        if not ok:
            raise cworld.FakeTimeout('read timed out')
        req = box['req']
        if req.exc or req.status is None:
            return cworld.FakeResponse(500, b'Internal Server Error', 'text/plain')
        return cworld.FakeResponse(req.status, req.body or b'', req.header('Content-Type') or 'text/plain')

    def ws_connect(self, url, opts):
        self.c.sched.point('ws.connect')
        path, query = split_url(url)
        box = {}

        def arrive():
            ws = box['ws'] = self.c.sw.ws(query, headers=dict(opts.get('header') or {}), path=path)
            box['bridge'] = BridgeSyncWS(self.c, ws, opts.get('timeout'))
            told = []

            def ev():
                if (ws.accepted or ws.rejected or ws.done) and not told:
                    told.append(1)
                    self.c.net_send(lambda: box.__setitem__('answered', True))
            ws.on_event = ws.on_event + [ev]
            ev()
        self.c.net_send(arrive)
        ok = self.c.sched.block(lambda: box.get('answered', False), opts.get('timeout'), 'ws.connect')
        if not ok:
            raise cworld.WSTimeout('connect timed out')
        if not box['ws'].accepted:
            raise cworld.WSException('Handshake status 400')
        return box['bridge']


class ComboWorld:
    """client_impl / server_impl in {'sync', 'async'}."""
    def __init__(self, client_impl, server_impl, server_kwargs=None, behaviour=None, client_kwargs=None, latency=0.0):
        self.sh = Shared()
        self.lat = latency          # one-way delay of the virtual network, in virtual seconds
        self.net = []               # delay line: heap of (due, seq, fn)
        self.netseq = 0
        self.clock = self.sh.clock
        self.sched = self.sh.sched
        self.loop = self.sh.loop
        vclock.set_current(self.clock)
        self.client_impl = client_impl
        self.server_impl = server_impl
        self.requests = []
        if server_impl == 'async':
            self.sw = aworld.AsyncWorld(server_kwargs=server_kwargs, behaviour=behaviour, shared=self.sh)
        else:
            self.sw = sworld.SyncWorld(server_kwargs=server_kwargs, behaviour=behaviour, shared=self.sh)
        if client_impl == 'async':
            self.cw = cworld.AsyncClientWorld(client_kwargs=client_kwargs, shared=self.sh, session=BridgeAioSession(self))
        else:
            sess = BridgeSyncSession(self)
            self.cw = cworld.SyncClientWorld(client_kwargs=client_kwargs, shared=self.sh, session=sess,
                                             ws_connect=sess.ws_connect)
        self.last = None

    def net_send(self, fn):
        """Hand `fn` (the arrival of a request, frame, response or close at the other side) to the network: at once
        when the latency is zero, else `latency` virtual seconds from now; arrivals keep their sending order."""
        if not self.lat:
            fn()
            return
        heapq.heappush(self.net, (self.clock.now + self.lat, self.netseq, fn))
        self.netseq += 1

    def log_request(self, method, url, body):
        self.requests.append((method, url, body, self.clock.now))

    @property
    def nstep(self):
        return self.sh.nstep

    @property
    def now(self):
        return self.clock.now

    def runnable(self):
        out = [vt.id for vt in self.sched.enabled()]
        if self.loop.has_ready():
            out.append('L')
        if self.last in out:
            out.remove(self.last)
            out.insert(0, self.last)
        return out

    def step(self, actor=None):
        vclock.set_current(self.clock)
        if actor is None:
            r = self.runnable()
            if not r:
                raise HarnessError('step() with nothing runnable')
            actor = r[0]
        self.sh.nstep += 1
        self.last = actor
        if actor == 'L':
            self.loop.step()
        else:
            self.sched.run_thread(self.sched.threads[actor])

    def run(self, cap=20000):
        n = 0
        while True:
            r = self.runnable()
            if not r:
                return n
            self.step(r[0])
            n += 1
            if n > cap:
                raise Livelock('combined world does not quiesce within %d steps' % cap)

    def next_deadline(self):
        ds = [d for d in (self.sched.next_deadline(), self.loop.next_deadline(), self.net[0][0] if self.net else None)
              if d is not None]
        return min(ds) if ds else None

    def advance_to(self, t):
        if t < self.clock.now:
            raise HarnessError('time going backwards')
        self.clock.now = t
        vclock.set_current(self.clock)
        while self.net and self.net[0][0] <= t:
            heapq.heappop(self.net)[2]()
        self.loop.fire_due()

    def run_until(self, t):
        self.run()
        while True:
            d = self.next_deadline()
            if d is None or d > t:
                break
            self.advance_to(d)
            self.run()
        if t > self.clock.now:
            self.advance_to(t)
            self.run()

    def teardown(self):
        import gc
        import sys
        vclock.set_current(self.clock)
        self.sw.server.handlers = {}
        self.cw.client.handlers = {}
        self.sched.kill()
        old = sys.unraisablehook
        sys.unraisablehook = lambda *a: None
        try:
            self.loop.teardown()
        finally:
            sys.unraisablehook = old
        self.sw.teardown()
        self.cw.teardown()
        gc.collect()
