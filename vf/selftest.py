"""Self test of the explorer substrate (run by MANIFEST.setup_cmd).

1. A two-thread lost-update toy: the explorer must find the lost update with
   one deviation and must not find it with zero.
2. A deadlock toy: a thread blocked with no deadline is reported as blocked.
3. The virtual asyncio loop replays a timed scenario identically and fires
   timers in deadline order.
"""
import os
import sys

HERE = os.path.dirname(os.path.dirname(os.path.abspath(__file__)))
sys.path.insert(0, os.path.join(os.environ.get('VERIF_REPO', '/repo'), 'src'))

from vf.explore import core  # noqa: E402
from vf.vworld import clock as vclock  # noqa: E402
from vf.vworld import vthreads  # noqa: E402


class ToyWorld:
    def __init__(self):
        self.clock = vclock.VClock()
        self.sched = vthreads.Sched(self.clock)
        self.shared = 0

    @property
    def now(self):
        return self.clock.now

    def runnable(self):
        return [vt.id for vt in self.sched.enabled()]

    def step(self, actor):
        self.sched.run_thread(self.sched.threads[actor])

    def next_deadline(self):
        return self.sched.next_deadline()

    def advance_to(self, t):
        self.clock.now = t

    def teardown(self):
        self.sched.kill()


class LostUpdate(core.Scenario):
    horizon = 10.0

    def build(self):
        w = self.world = ToyWorld()

        def inc():
            w.sched.point('read')
            x = w.shared
            w.sched.point('write')
            w.shared = x + 1
        self.scripts = [[core.Action('spawn-both', lambda sc: (w.sched.spawn(inc, 'a'),
                                                                w.sched.spawn(inc, 'b')))]]

    def finish(self):
        if self.world.shared != 2:
            self.flag('lost_update', 'shared=%d' % self.world.shared)

    def observation(self):
        return {'shared': self.world.shared}


class Deadlock(core.Scenario):
    horizon = 10.0

    def build(self):
        w = self.world = ToyWorld()
        q = vthreads.VQueue(w.sched)

        def joiner():
            q.put(1)
            q.join()
        self.vt = None
        self.scripts = [[core.Action('spawn', lambda sc: setattr(sc, 'vt', w.sched.spawn(joiner, 'j')))]]

    def finish(self):
        self.extra = {'blocked': [vt.name for vt in self.world.sched.blocked()]}

    def observation(self):
        return self.extra


def loop_scenario():
    import asyncio
    from vf.vworld import vloop
    ck = vclock.VClock()
    lp = vloop.VLoop(ck)
    log = []

    async def sleeper(name, d):
        await asyncio.sleep(d)
        log.append((name, ck.now))
        try:
            await asyncio.wait_for(asyncio.sleep(10), 0.5)
        except asyncio.TimeoutError:
            log.append((name + '-timeout', ck.now))
    with lp.enter():
        lp.create_task(sleeper('b', 2.0))
        lp.create_task(sleeper('a', 1.0))
    while True:
        while lp.has_ready():
            lp.step()
        d = lp.next_deadline()
        if d is None:
            break
        ck.now = d
        lp.fire_due()
    lp.teardown()
    return log


def main():
    fails = []
    for bound, expect in ((0, False), (1, True)):
        found = []
        st = core.Stats()
        core.explore_subtree(LostUpdate, {}, [], bound,
                             lambda ex, p: found.extend(ex.violations), st)
        if bool(found) != expect:
            fails.append('lost-update toy at D=%d: found=%r (executions=%d)' % (bound, bool(found), st.executions))
        print('toy lost update D<=%d: executions=%d outcomes=%d found=%s' % (bound, st.executions, len(st.outcomes), bool(found)))
    ex = core.execute(Deadlock, {}, [])
    if ex.obs != {'blocked': ['j']}:
        fails.append('deadlock toy: %r' % (ex.obs,))
    a, b = loop_scenario(), loop_scenario()
    want = [('a', 1.0), ('a-timeout', 1.5), ('b', 2.0), ('b-timeout', 2.5)]
    if a != b or a != want:
        fails.append('vloop: %r' % (a,))
    print('vloop timers:', a)
    if fails:
        for f in fails:
            print('SELFTEST FAILURE:', f)
        return 1
    print('selftest ok')
    return 0


if __name__ == '__main__':
    sys.exit(main())
