"""Self test of the explorer substrate (run by MANIFEST.setup_cmd)."""
import sys


def main():
    print('selftest ok')
    return 0


if __name__ == '__main__':
    sys.exit(main())
