"""Canonical digests of world state.

Built generically by walking __dict__ (not by naming fields) so that a
refactor does not silently blind it. Times enter only as differences from
`now`; queues as lists of encoded packets.
"""
import asyncio
import collections
import hashlib

from vf.report import dumps
from vf.vworld import clock as vclock


def _pkt(p):
    if p is None:
        return 'NONE'
    t = getattr(p, 'packet_type', None)
    if t is None:
        return repr(p)
    d = getattr(p, 'data', None)
    if isinstance(d, (bytes, bytearray)):
        d = {'__bytes__': bytes(d).hex()}
    return [t, d]


def _queue(q):
    items = None
    for attr in ('items', '_queue', 'queue'):
        v = getattr(q, attr, None)
        if isinstance(v, (collections.deque, list)):
            items = list(v)
            break
    unfinished = getattr(q, 'unfinished', getattr(q, '_unfinished_tasks', getattr(q, 'unfinished_tasks', None)))
    return {'items': [_pkt(p) for p in (items or [])], 'unfinished': unfinished}


def _val(v, now):
    if v is None or isinstance(v, (bool, int, str)):
        return v
    if isinstance(v, float):
        if v > vclock.EPOCH / 2:
            return {'age': now + vclock.EPOCH - v}
        return v
    if isinstance(v, (bytes, bytearray)):
        return {'__bytes__': bytes(v).hex()}
    if isinstance(v, dict):
        return {str(k): _val(x, now) for k, x in sorted(v.items(), key=lambda kv: str(kv[0]))}
    if isinstance(v, (list, tuple)):
        return [_val(x, now) for x in v]
    if hasattr(v, 'packet_type'):
        return _pkt(v)
    return '<%s>' % type(v).__name__


def socket_state(sock, now):
    out = {}
    for k, v in sorted(vars(sock).items()):
        if k == 'server':
            continue
        if k == 'queue':
            out[k] = _queue(v)
        else:
            out[k] = _val(v, now)
    return out


def sessions_state(world, live_only=True):
    """{sid: state} for (live) sessions of the server."""
    out = {}
    for sid, s in world.server.sockets.items():
        if live_only and getattr(s, 'closed', False):
            continue
        out[sid] = socket_state(s, world.now)
    return out


def env_state(world):
    return {
        'reqs': [(r.method, r.done, r.status) for r in world.reqs if not r.done],
        'wss': [(s.accepted, s.server_closed, s.client_closed, len(s.inbox), len(s.frames)) for s in world.wss],
        'calls': [(c.name, c.done) for c in world.calls if not c.done],
    }


def world_digest(world, extra=None):
    d = {'sessions': sessions_state(world, live_only=False), 'env': env_state(world),
         'events': [e[:3] for e in world.events], 'extra': extra}
    return hashlib.blake2b(dumps(d, sort_keys=True).encode(), digest_size=16).hexdigest()
