"""Fork-based parallel map over chunks of work items.

The partition of the work does not depend on VERIF_SEED; only the order in
which chunks are handed out does.
"""
import multiprocessing as mp
import os
import random
import sys
import traceback

from vf.report import HarnessError

_FN = None


def _call(args):
    idx, chunk = args
    try:
        return idx, _FN(chunk), None
    except BaseException:
        return idx, None, traceback.format_exc()


def pmap_chunks(fn, chunks, workers=16, seed=0, maxtasks=None):
    """fn(chunk) -> result for every chunk; returns results in chunk order.

    fn must be a module-level function (inherited through fork)."""
    global _FN
    chunks = list(chunks)
    if not chunks:
        return []
    order = list(range(len(chunks)))
    random.Random(seed).shuffle(order)
    results = [None] * len(chunks)
    if workers <= 1 or len(chunks) == 1:
        for i in order:
            results[i] = fn(chunks[i])
        return results
    _FN = fn
    ctx = mp.get_context('fork')
    sys.stdout.flush()
    sys.stderr.flush()
    with ctx.Pool(min(workers, len(chunks)), maxtasksperchild=maxtasks) as pool:
        for idx, res, err in pool.imap_unordered(
                _call, [(i, chunks[i]) for i in order]):
            if err is not None:
                pool.terminate()
                raise HarnessError('worker failed on chunk %d:\n%s' % (idx, err))
            results[idx] = res
    return results


def split(items, n):
    """Deal items round-robin into at most n non-empty chunks."""
    items = list(items)
    n = max(1, min(n, len(items)))
    return [items[i::n] for i in range(n)]
