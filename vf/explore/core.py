"""Stateless, deviation-bounded exploration of a closed scenario.

A Scenario owns a world (actors that can be stepped), a set of parallel
environment scripts and monitors. One execution is fully described by its
list of integer choices; it is always replayed on a fresh scenario.

Decision menu at every point (canonical order, index 0 = default):
  ('run', actor)   for every runnable actor, the one that ran last first
  ('env', i)       next action of script i, if its precondition holds
  ('tick',)        only when nothing is runnable and no env action is
                   enabled: advance the clock to the next deadline
Costs (deviations): taking an env action while something is runnable (early
injection) and switching away from an actor that could continue (preemption)
cost 1. Which runnable actor goes next after the previous one blocked or
finished is free when the scenario runs with free_switch (iterative context
bounding proper; used at the thorough tier and on sharp subsets) and costs 1
otherwise (cheaper; quick tier). The choice among several enabled env scripts
at quiescence is always free (all interleavings of the scripts' partial order).
"""
import hashlib
import json

from vf.report import HarnessError, Livelock, dumps


class Action:
    """One environment action of a script."""
    def __init__(self, name, fire, enabled=None, not_before=None):
        self.name = name
        self.fire = fire
        self._enabled = enabled
        self.not_before = not_before

    def enabled(self, sc):
        if self.not_before is not None and sc.world.now < self.not_before:
            return False
        return self._enabled(sc) if self._enabled else True


class Scenario:
    """Subclass: build() creates self.world and self.scripts (list of lists
    of Action); step_check() is called after every step; finish() after the
    horizon; observation() returns a JSON-able trace used by the determinism
    gate; violations go to self.violations as (kind, text, extra_sig)."""
    horizon = 0.0
    max_points = 5000
    free_env_order = True
    free_switch = False      # True: picks among runnable actors after a block are free (CHESS); False: every non-default pick costs 1

    def __init__(self, params):
        self.params = params
        self.world = None
        self.scripts = []
        self.violations = []
        self.pos = []

    def build(self):
        raise NotImplementedError

    def step_check(self):
        pass

    def finish(self):
        pass

    def observation(self):
        return None

    def teardown(self):
        if self.world is not None:
            self.world.teardown()

    def flag(self, kind, text, **sig):
        self.violations.append((kind, text, sig))


class ReplayDivergence(HarnessError):
    """A recorded prefix of choices no longer leads to the same decision points. The worlds are closed and rebuilt from
    scratch for every execution, so this means the code under test carried something over from an earlier execution in
    the same process (module- or class-level state)."""


class Execution:
    __slots__ = ('choices', 'menus', 'costs', 'violations', 'obs', 'labels', 'end', 'extra')

    def __init__(self):
        self.choices = []
        self.menus = []      # number of options at each point
        self.costs = []      # cost of each option at each point (list of lists)
        self.labels = []     # label of the chosen option
        self.violations = []
        self.obs = None
        self.end = None
        self.extra = None


def execute(factory, params, prefix, want_labels=False):
    """Run one execution: replay `prefix`, then defaults, to the horizon."""
    sc = factory(params)
    ex = Execution()
    try:
        try:
            sc.build()
        except Livelock as e:
            sc.flag('livelock', str(e), trigger='setup')
            ex.violations = list(sc.violations)
            ex.end = 'livelock'
            return ex
        w = sc.world
        scripts = sc.scripts
        sc.pos = [0] * len(scripts)
        if isinstance(params, dict) and '_free_switch' in params:
            sc.free_switch = bool(params['_free_switch'])
        last_actor = None
        n = 0
        while True:
            runnable = w.runnable()
            if last_actor is not None and last_actor in runnable:
                runnable.remove(last_actor)
                runnable.insert(0, last_actor)
            envs = [i for i in range(len(scripts))
                    if sc.pos[i] < len(scripts[i]) and scripts[i][sc.pos[i]].enabled(sc)]
            menu = [('run', a) for a in runnable] + [('env', i) for i in envs]
            if not runnable and not envs:
                d = w.next_deadline()
                for i in range(len(scripts)):
                    if sc.pos[i] < len(scripts[i]):
                        nb = scripts[i][sc.pos[i]].not_before
                        if nb is not None and nb > w.now and (d is None or nb < d):
                            d = nb
                if d is not None and d <= sc.horizon:
                    menu.append(('tick', d))
            if not menu:
                ex.end = 'quiescent'
                break
            costs = []
            preempting = bool(runnable) and last_actor is not None and runnable[0] == last_actor
            for k, m in enumerate(menu):
                if k == 0:
                    costs.append(0)
                elif m[0] == 'run':
                    # switching away from an actor that could continue is a preemption (cost 1); when the
                    # actor that ran last has blocked or finished, which of the runnable actors goes next
                    # is a free choice (iterative context bounding, Musuvathi & Qadeer)
                    costs.append(1 if (preempting or not sc.free_switch) else 0)
                elif m[0] == 'env':
                    if runnable:
                        costs.append(1)
                    else:
                        costs.append(0 if sc.free_env_order else 1)
                else:
                    costs.append(0)
            if n < len(prefix):
                c = prefix[n]
                if c >= len(menu):
                    raise ReplayDivergence('replay divergence at point %d: choice %d of %d (%r)'
                                           % (n, c, len(menu), menu))
            else:
                c = 0
            ex.choices.append(c)
            ex.menus.append(len(menu))
            ex.costs.append(costs)
            pick = menu[c]
            if want_labels:
                if pick[0] == 'env':
                    ex.labels.append('env:' + scripts[pick[1]][sc.pos[pick[1]]].name)
                else:
                    ex.labels.append('%s:%s' % (pick[0], pick[1]))
            try:
                if pick[0] == 'run':
                    w.step(pick[1])
                    last_actor = pick[1]
                elif pick[0] == 'env':
                    i = pick[1]
                    act = scripts[i][sc.pos[i]]
                    sc.pos[i] += 1
                    act.fire(sc)
                else:
                    w.advance_to(pick[1])
            except Livelock as e:
                sc.flag('livelock', str(e), trigger='step')
                ex.end = 'livelock'
                break
            sc.step_check()
            n += 1
            if n > sc.max_points:
                ex.end = 'cap'
                sc.flag('livelock', 'execution exceeded %d decision points without reaching the horizon' % sc.max_points, trigger='cap')
                break
        if n < len(prefix) and ex.end != 'livelock':
            raise ReplayDivergence('replay divergence: the execution ended (%s) after %d of the %d recorded decision points'
                                   % (ex.end, n, len(prefix)))
        try:
            sc.finish()
        except Livelock as e:
            sc.flag('livelock', str(e), trigger='epilogue')
        ex.violations = list(sc.violations)
        ex.obs = sc.observation()
        ex.extra = getattr(sc, 'extra', None)
    finally:
        sc.teardown()
        lp = getattr(getattr(sc, 'world', None), 'loop', None)
        if getattr(lp, 'survivors', 0):
            ex.violations = list(ex.violations) + [('livelock', '%d task(s) of the code under test survive 50 rounds of cancellation when the '
                                                     'world is torn down (a loop that swallows CancelledError)' % lp.survivors, {'trigger': 'teardown'})]
    return ex


def spent(ex, upto):
    return sum(ex.costs[i][ex.choices[i]] for i in range(upto))


def alternatives(ex, start, bound):
    """All one-step deviations from execution `ex` at positions >= start
    whose cumulative cost stays within `bound`: list of prefixes."""
    out = []
    used = spent(ex, start)
    for i in range(start, len(ex.choices)):
        for alt in range(1, ex.menus[i]):
            if used + ex.costs[i][alt] <= bound:
                out.append(ex.choices[:i] + [alt])
        used += ex.costs[i][ex.choices[i]]
        if used > bound:
            break
    return out


def obs_digest(obs):
    return hashlib.blake2b(dumps(obs, sort_keys=True).encode(), digest_size=12).hexdigest()


class Stats:
    def __init__(self):
        self.executions = 0
        self.points = 0
        self.max_points = 0
        self.outcomes = set()
        self.caps = 0
        self.by_dev = {}

    def merge(self, o):
        self.executions += o.executions
        self.points += o.points
        self.max_points = max(self.max_points, o.max_points)
        self.outcomes |= o.outcomes
        self.caps += o.caps
        for k, v in o.by_dev.items():
            self.by_dev[k] = self.by_dev.get(k, 0) + v


def explore_subtree(factory, params, prefix, bound, on_exec, stats, budget=None):
    """Depth-first exploration of every execution extending `prefix` with at
    most `bound` deviations in total. on_exec(ex, prefix) is called for each
    execution. Returns False when the execution budget ran out."""
    stack = [prefix]
    nviol = 0
    while stack:
        p = stack.pop()
        if nviol >= 25:
            stats.caps += 1
            return False
        if budget is not None and stats.executions >= budget:
            stats.caps += 1
            return False
        try:
            ex = execute(factory, params, p)
        except ReplayDivergence as e:
            # reported as a violation of its own: a fresh server / client behaved differently from the fresh one of an
            # earlier execution - it has never occurred on a tree that passes
            ex = Execution()
            ex.choices = list(p)
            ex.menus = [0] * len(p)
            ex.costs = [[0] * (max(p) + 1 if p else 1)] * len(p)
            ex.violations = [('process_state_leak', 'a world built from scratch did not follow the schedule recorded on an earlier '
                              'world built from scratch (%s): state of the code under test survives between fresh servers / clients '
                              'of one process' % e, {'trigger': 'replay'})]
            stats.executions += 1
            on_exec(ex, p)
            nviol += 1
            continue
        stats.executions += 1
        stats.points += len(ex.choices)
        stats.max_points = max(stats.max_points, len(ex.choices))
        d = spent(ex, len(ex.choices))
        stats.by_dev[d] = stats.by_dev.get(d, 0) + 1
        if ex.obs is not None:
            stats.outcomes.add(obs_digest(ex.obs))
        on_exec(ex, p)
        if ex.violations:
            nviol += 1
        if len(ex.choices) >= len(p):
            stack.extend(alternatives(ex, len(p), bound))
    return True


# ------------------------------------------------------------- parallel driver

_JOB = {}


def _subtree_worker(chunk):
    factory = _JOB['factory']
    bound = _JOB['bound']
    budget = _JOB['budget']
    sig_of = _JOB['sig_of']
    st = Stats()
    viols = []
    samples = []

    for params, prefix in chunk:
        if len(viols) >= 25:
            st.caps += 1          # plenty of counterexamples already: do not grind through a broken tree
            continue

        def on_exec(ex, p, params=params):
            if len(samples) < 2 and len(ex.choices) > 3:
                samples.append({'params': params, 'choices': ''.join(map(str, ex.choices))})
            for kind, text, sig in ex.violations:
                if len(viols) < 300:
                    viols.append({'kind': kind, 'text': text, 'sig': sig, 'params': params,
                                  'choices': list(ex.choices),
                                  'dev': spent(ex, len(ex.choices))})
        explore_subtree(factory, params, prefix, bound, on_exec, st, budget)
    return (st.executions, st.points, st.max_points, sorted(st.outcomes), st.caps, st.by_dev, viols, samples)


def run_search(factory, params_list, bound, workers=16, seed=0, budget_per_subtree=None,
               gate_every=97):
    """Explore every scenario in params_list up to `bound` deviations.

    Returns (Stats, violations, samples, gate_info). Level-0 executions are run
    here; their one-step deviations become parallel subtrees."""
    from vf.explore import parallel
    st = Stats()
    viols = []
    items = []
    samples = []
    gate = {'replayed': 0, 'mismatches': 0}
    per_scenario = len(params_list) >= 4 * workers
    if per_scenario:
        for params in params_list[:2]:
            ex = execute(factory, params, [], want_labels=True)
            samples.append({'params': params, 'default_schedule': ex.labels[:60]})
        items = [(params, []) for params in params_list]
    for params in ([] if per_scenario else params_list):
        ex = execute(factory, params, [], want_labels=len(samples) < 3)
        st.executions += 1
        st.points += len(ex.choices)
        st.max_points = max(st.max_points, len(ex.choices))
        st.by_dev[0] = st.by_dev.get(0, 0) + 1
        if ex.obs is not None:
            st.outcomes.add(obs_digest(ex.obs))
        if len(samples) < 3:
            samples.append({'params': params, 'default_schedule': ex.labels[:60]})
        for kind, text, sig in ex.violations:
            viols.append({'kind': kind, 'text': text, 'sig': sig, 'params': params,
                          'choices': list(ex.choices), 'dev': 0})
        for p in alternatives(ex, 0, bound):
            items.append((params, p))
    if items:
        _JOB.update(factory=factory, bound=bound, budget=budget_per_subtree, sig_of=None)
        chunks = parallel.split(items, workers * 8)
        for (n, pts, mx, outs, caps, by_dev, vs, smp) in parallel.pmap_chunks(
                _subtree_worker, chunks, workers, seed, maxtasks=4):
            st.executions += n
            st.points += pts
            st.max_points = max(st.max_points, mx)
            st.outcomes |= set(outs)
            st.caps += caps
            for k, v in by_dev.items():
                st.by_dev[k] = st.by_dev.get(k, 0) + v
            viols.extend(vs)
            samples.extend(smp[:1])
    # determinism gate: replay a deterministic selection of recorded choice
    # lists (every violating one, first/last sample of each chunk) twice
    todo = [(v['params'], v['choices']) for v in viols[:20]]
    for s in samples:
        if 'choices' in s:
            todo.append((s['params'], [int(c) for c in s['choices']]))
    for params in params_list[::max(1, len(params_list) // 5)][:5]:
        todo.append((params, []))
    nviol = len(viols[:20])
    for k, (params, choices) in enumerate(todo[:40]):
        try:
            a = execute(factory, params, choices)
            b = execute(factory, params, choices)
        except ReplayDivergence:
            # only reachable when the parallel search already reported process_state_leak (a fresh world not following a
            # schedule recorded on an earlier fresh world); recorded, not raised a second time
            gate['replayed'] += 1
            if viols:
                gate['diverging_violations'] = gate.get('diverging_violations', 0) + 1
                continue
            raise
        gate['replayed'] += 1
        if a.choices != b.choices or a.menus != b.menus or \
                dumps(a.obs, sort_keys=True) != dumps(b.obs, sort_keys=True) or \
                dumps(a.violations, sort_keys=True) != dumps(b.violations, sort_keys=True):
            if k < nviol and (a.violations or b.violations):
                # a schedule that violates the property and does not replay identically: the tree under test is already
                # reported as broken; the divergence is recorded, not raised (it has never occurred on a tree that passes)
                gate['diverging_violations'] = gate.get('diverging_violations', 0) + 1
                continue
            gate['mismatches'] += 1
    if gate['mismatches']:
        raise HarnessError('NONDETERMINISM: %d of %d replays diverged' % (gate['mismatches'], gate['replayed']))
    return st, viols, samples[:6], gate
