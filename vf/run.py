"""Runner: ./check <ID> [--tier quick|thorough] [--replay file]

Exit codes: 0 property held on everything explored (known findings are
printed as KNOWN-FINDING lines), 1 VIOLATION, 2 harness error.
"""
import argparse
import importlib
import json
import os
import subprocess
import sys
import time
import traceback

HERE = os.path.dirname(os.path.dirname(os.path.abspath(__file__)))
REPO = os.environ.get('VERIF_REPO', '/repo')
sys.path.insert(0, os.path.join(REPO, 'src'))

from vf import report as _report  # noqa: E402

CHECKS = {
    'C01': 'c01_packet', 'C02': 'c02_payload', 'C03': 'c03_delivery',
    'C04': 'c04_dispatch', 'C05': 'c05_events', 'C06': 'c06_upgrade',
    'C07': 'c07_heartbeat', 'C08': 'c08_client_lifecycle',
    'C09': 'c09_client_conduct', 'C10': 'c10_interop', 'C11': 'c11_open',
    'C12': 'c12_admission', 'C13': 'c13_origin', 'C14': 'c14_limits',
    'C15': 'c15_total', 'C16': 'c16_hygiene', 'C17': 'c17_ids',
    'C18': 'c18_equiv', 'C19': 'c19_transform', 'C20': 'c20_routing',
}


def _assert_repo():
    import engineio
    p = os.path.realpath(engineio.__file__)
    want = os.path.realpath(os.path.join(REPO, 'src', 'engineio'))
    if not p.startswith(want):
        raise _report.HarnessError(
            'engineio imported from %s, expected under %s' % (p, want))


def main(argv=None):
    ap = argparse.ArgumentParser()
    ap.add_argument('pid')
    ap.add_argument('--tier', default=os.environ.get('VERIF_TIER', 'quick'),
                    choices=['quick', 'thorough'])
    ap.add_argument('--replay', default=None)
    ap.add_argument('--workers', type=int,
                    default=int(os.environ.get('VERIF_WORKERS', '16')))
    ap.add_argument('--no-evidence', action='store_true')
    args = ap.parse_args(argv)
    pid = args.pid.upper()
    if pid not in CHECKS:
        print('unknown property', pid)
        return 2
    try:
        seed = int(os.environ.get('VERIF_SEED', '0'))
    except ValueError:
        seed = 0
    ctx = _report.Ctx(pid=pid, tier=args.tier, seed=seed, repo=REPO,
                      workers=max(1, args.workers), here=HERE)
    t0 = time.time()
    try:
        _assert_repo()
        mod = importlib.import_module('vf.checks.' + CHECKS[pid])
        if args.replay:
            with open(args.replay) as f:
                payload = json.load(f)
            return mod.replay(ctx, payload)
        rep = mod.run(ctx)
    except _report.HarnessError as e:
        print('HARNESS-ERROR property=%s %s' % (pid, e))
        traceback.print_exc()
        return 2
    except Exception:
        print('HARNESS-ERROR property=%s unexpected exception' % pid)
        traceback.print_exc()
        return 2
    rep.wall_s = time.time() - t0
    return _report.finish(ctx, rep, write_evidence=not args.no_evidence)


if __name__ == '__main__':
    sys.exit(main())
