"""Evaluate a JSONP response body by ECMAScript rules.

The body must be exactly one statement  ___eio[<index>]("<literal>");  and the
value of the double-quoted string literal is returned.
"""
import re

_HEAD = re.compile(r'^___eio\[(-?[0-9]+)\]\("')
LINE_TERMINATORS = {'\n', '\r'}          # U+2028/2029 are legal inside literals since ES2019


class BadScript(Exception):
    pass


def eval_string_literal(s, i):
    """s[i] is the first char after the opening quote. Returns (value, index
    just after the closing quote)."""
    out = []
    n = len(s)
    while True:
        if i >= n:
            raise BadScript('unterminated string literal')
        c = s[i]
        if c == '"':
            return ''.join(out), i + 1
        if c in LINE_TERMINATORS:
            raise BadScript('raw line terminator in string literal')
        if c != '\\':
            out.append(c)
            i += 1
            continue
        i += 1
        if i >= n:
            raise BadScript('dangling backslash')
        e = s[i]
        i += 1
        if e in 'bfnrtv':
            out.append({'b': '\b', 'f': '\f', 'n': '\n', 'r': '\r', 't': '\t', 'v': '\v'}[e])
        elif e == '0' and not (i < n and s[i].isdigit()):
            out.append('\0')
        elif e in '0123456789':
            raise BadScript('octal / decimal escape')
        elif e == 'x':
            h = s[i:i + 2]
            if len(h) != 2 or not re.fullmatch(r'[0-9a-fA-F]{2}', h):
                raise BadScript('bad \\x escape')
            out.append(chr(int(h, 16)))
            i += 2
        elif e == 'u':
            if i < n and s[i] == '{':
                j = s.find('}', i)
                if j < 0 or not re.fullmatch(r'[0-9a-fA-F]+', s[i + 1:j]):
                    raise BadScript('bad \\u{} escape')
                out.append(chr(int(s[i + 1:j], 16)))
                i = j + 1
            else:
                h = s[i:i + 4]
                if len(h) != 4 or not re.fullmatch(r'[0-9a-fA-F]{4}', h):
                    raise BadScript('bad \\u escape')
                out.append(chr(int(h, 16)))
                i += 4
        elif e == '\r':
            if i < n and s[i] == '\n':
                i += 1
        elif e in ('\n', ' ', ' '):
            pass                     # line continuation
        else:
            out.append(e)            # identity escape (includes \" \\ \/ \')
    # not reached


def evaluate(body):
    """Returns (index, string value) or raises BadScript."""
    m = _HEAD.match(body)
    if not m:
        raise BadScript('body does not start with ___eio[<n>]("')
    val, i = eval_string_literal(body, m.end())
    if body[i:] != ');':
        raise BadScript('trailing text after the call: %r' % body[i:i + 20])
    # combine surrogate pairs produced by 😀 style escapes
    val = val.encode('utf-16', 'surrogatepass').decode('utf-16', 'replace')
    return int(m.group(1)), val
