"""Reference Engine.IO v4 codec, written from the protocol description.

Deliberately independent of engineio.packet / engineio.payload: the only
shared ingredient is Python's own json and base64 modules.
"""
import base64
import binascii
import json
import math
import re

SEP = '\x1e'
_INT_RE = re.compile(r'^\s*-?(0|[1-9][0-9]*)\s*$')
_B64_RE = re.compile(r'^(?:[A-Za-z0-9+/]{4})*(?:[A-Za-z0-9+/]{2}==|[A-Za-z0-9+/]{3}=)?$')


class Undecodable(Exception):
    pass


def ref_encode(ptype, data, b64):
    """Wire representation of one packet on a text-only (b64=True) or a
    binary-capable (b64=False) channel."""
    if isinstance(data, (bytes, bytearray)):
        if ptype != 4:
            raise Undecodable('binary only for MESSAGE')
        if b64:
            return 'b' + base64.standard_b64encode(bytes(data)).decode('ascii')
        return bytes(data)
    out = str(ptype)
    if data is None:
        return out
    if isinstance(data, str):
        return out + data
    if isinstance(data, (dict, list)):
        return out + json.dumps(data, separators=(',', ':'))
    raise Undecodable('payload kind outside the API')


_HUGE_INT = re.compile(r'[0-9]{101,}')


def classify_text(text):
    """What a decoded text payload must come back as.

    Returns (kind, value, alternatives): value is the required payload,
    alternatives a list of further accepted payloads (S4 cases)."""
    if text == '':
        return ('text', '', [])
    try:
        val = json.loads(text)
    except ValueError:
        return ('text', text, [])
    if isinstance(val, bool) or isinstance(val, int):
        # integer-looking text and the literals true/false stay text
        return ('text', text, [])
    if isinstance(val, float) and (math.isnan(val) or math.isinf(val)) \
            and not re.search(r'[0-9]', text):
        # NaN / Infinity / -Infinity: not JSON proper; either is accepted
        return ('text', text, [val])
    if _HUGE_INT.search(text):
        # containers holding integers of more than 100 digits: the library's
        # denial-of-service guard keeps them as text; accept both
        return ('json', val, [text])
    return ('json', val, [])


def payload_equal(a, b):
    if isinstance(a, float) and isinstance(b, float):
        if math.isnan(a) and math.isnan(b):
            return True
    if type(a) is not type(b):
        if isinstance(a, (bytes, bytearray)) and isinstance(b, (bytes, bytearray)):
            return bytes(a) == bytes(b)
        # json floats vs ints are distinct types; do not conflate
        return False
    return a == b


def valid_b64(s):
    return bool(_B64_RE.match(s))


def ref_decode(rep):
    """Reference decoding of one wire representation.

    Returns dict(type, binary, data, alts) or raises Undecodable.  For
    invalid base64 returns data=None with lenient=True (S4: outcome open)."""
    if isinstance(rep, (bytes, bytearray)):
        return {'type': 4, 'binary': True, 'data': bytes(rep), 'alts': []}
    if rep == '':
        raise Undecodable('empty')
    c = rep[0]
    if c == 'b':
        body = rep[1:]
        if valid_b64(body):
            return {'type': 4, 'binary': True,
                    'data': base64.standard_b64decode(body), 'alts': []}
        return {'type': 4, 'binary': True, 'data': None, 'alts': [],
                'lenient': True}
    if c in '0123456789':
        kind, val, alts = classify_text(rep[1:])
        return {'type': int(c), 'binary': False, 'data': val, 'alts': alts}
    raise Undecodable('no type digit')


def ref_payload_encode(packets):
    """packets: list of (type, data)."""
    return SEP.join(ref_encode(t, d, True) for t, d in packets)
